"""C19 — interval and profile primitives return exactly the set-theoretic result."""
import itertools, random
from functools import partial
from lib import *

EXC = {"IndexError": 1, "AssertionError": 3, "ZeroDivisionError": 4}

HANGS = []
HANG_COUNT = {}
def call(f, *a):
    name = getattr(f, "__qualname__", None) or getattr(f, "__name__", str(f))
    if HANG_COUNT.get(name, 0) >= 3:       # a function that keeps hanging is not called again (a mutated loop may never terminate)
        return ("exc", 99)
    try:
        return ("ok", with_timeout(f, *a, seconds=2.0))
    except (IndexError, AssertionError, ZeroDivisionError) as e:
        return ("exc", EXC[type(e).__name__])
    except ImplTimeout:
        HANGS.append((name, a)); HANG_COUNT[name] = HANG_COUNT.get(name, 0) + 1
        return ("exc", 99)

def cout(r, f):
    return "(Ok %s)" % f(r[1]) if r[0] == "ok" else "(Raises %d%%N)" % r[1]
def cfout(r):
    return "(FOk %s%%float)" % float(r[1]).hex() if r[0] == "ok" else "(FRaises %d)" % r[1]

def sd_lists(U, maxn):
    """all strictly separated interval lists over positions 1..U"""
    out = [[]]
    def rec(start, cur):
        if len(cur) == maxn: return
        for a in range(start, U + 1):
            for b in range(a, U + 1):
                nxt = cur + [(a, b)]; out.append(nxt); rec(b + 1, nxt)
    rec(1, []); return out

def rand_sd(rnd, n, span=2000, touching=False):
    pts = sorted(rnd.sample(range(1, span), 2 * n))
    return [(pts[2 * i], pts[2 * i + 1]) for i in range(n)]

PRE_PRIMS = """From IQ.gen Require Import Prims.
Open Scope Z_scope.
Definition b2z (b:bool) : Z*Z := (if b then 1 else 0, 0).
Definition model (fid:Z) (a b:Z*Z) (d:Z) : Z*Z :=
  match fid with
  | 0 => b2z (py_overlaps a b) | 1 => py_overlap_intervals a b | 2 => b2z (py_overlaps_at_least a b d)
  | 3 => b2z (py_overlaps_at_least_when_overlap a b d) | 4 => (py_intersection_len a b, 0) | 5 => b2z (py_left_of a b)
  | 6 => b2z (py_equal_ranges a b d) | 7 => b2z (py_covers_end a b) | 8 => b2z (py_covers_start a b) | 9 => b2z (py_contains a b)
  | 10 => b2z (py_contains_well_inside a b d) | 11 => b2z (py_contains_approx a b d) | 12 => py_max_range a b
  | 13 => (py_interval_len a, 0) | _ => (py_cmp (fst a) (fst b), 0) end.
Definition check (c:(Z * (Z*Z) * (Z*Z) * Z) * (Z*Z)) := let '(fid, a, b, d) := fst c in iv_eqb (model fid a b d) (snd c).
(* set-theoretic meaning of the basic predicates *)
Definition inb (a:Z*Z) (p:Z) := (fst a <=? p) && (p <=? snd a).
Fixpoint cnt (lo:Z) (n:nat) (P:Z -> bool) : Z := match n with O => 0 | Datatypes.S k => (if P lo then 1 else 0) + cnt (lo + 1) k P end.
Definition prop (c:(Z * (Z*Z) * (Z*Z) * Z) * (Z*Z)) :=
  let '(fid, a, b, d) := fst c in let v := snd c in
  if (fst a <=? snd a) && (fst b <=? snd b) then
    match fid with
    | 0 => Z.eqb (fst v) (if 0 <? cnt (-2) 14 (fun p => inb a p && inb b p) then 1 else 0)
    | 4 => Z.eqb (fst v) (cnt (-2) 14 (fun p => inb a p && inb b p))
    | 5 => Z.eqb (fst v) (if snd a <? fst b then 1 else 0)
    | 9 => Z.eqb (fst v) (if Z.eqb (cnt (-2) 14 (fun p => inb b p && negb (inb a p))) 0 then 1 else 0)
    | 13 => Z.eqb (fst v) (cnt (-2) 14 (inb a))
    | _ => true end
  else true.
"""

PRE_LOOPS = """From IQ.gen Require Import Prims Loops.
From IQ Require Import Intervals IntervalsSpec.
Open Scope Z_scope.
(* the REGENERATED loop functions (gen/Loops.v) against the Python functions; value under py_<f>_pre, exception class otherwise *)
Definition T := ((list iv * iv * Z) * ((((Z * list iv) * list iv) * outcome iv) * outcome iv))%type.
Definition guard {A} (pre:bool) (v:A) (k:N) : outcome A := if pre then Ok v else Raises k.
Definition check (c:T) := let '(l, r, p) := fst c in let '((((t, j), e), fo), pr) := snd c in
  (py_intervals_total_length l =? t) && ivs_eqb (py_junctions_from_blocks l) j && ivs_eqb (py_get_exons 0 0 r l) e && ivs_eqb (py_get_exons (-7) 99 r l) e &&
  outcome_eqb iv_eqb (guard (py_get_following_exon_from_junctions_pre r l p) (py_get_following_exon_from_junctions r l p) IndexError) fo &&
  outcome_eqb iv_eqb (if negb (p <=? Z.of_nat (length l)) then Raises AssertionError
                      else guard (py_get_preceding_exon_from_junctions_pre r l p) (py_get_preceding_exon_from_junctions r l p) IndexError) pr.
(* total length = sum of the interval lengths; at most one junction per adjacent pair; one exon more than junctions that lie inside the region *)
Definition prop (c:T) := let '(l, r, p) := fst c in let '((((t, j), e), fo), pr) := snd c in
  (t =? fold_right (fun a s => (snd a - fst a + 1) + s) 0 l) && (Z.of_nat (length j) <=? Z.max 0 (Z.of_nat (length l) - 1)) && (Z.of_nat (length e) <=? Z.of_nat (length l) + 1).
"""

PRE_HELPERS = """From IQ.gen Require Import Prims Loops.
From IQ Require Import Intervals IntervalsSpec ProfileHelpers.
Open Scope Z_scope.
(* the REGENERATED profile helpers (gen/Loops.v; no hand model) against the Python functions: value under the function's own
   `assert len(a) == len(b)` (py_<f>_pre), AssertionError otherwise *)
Definition T := ((list Z * list Z) * ((((outcome Z * outcome bool) * outcome bool) * outcome (list Z)) * outcome (list iv)))%type.
Definition feats (n:nat) : list iv := map (fun i => (10 * Z.of_nat i, 10 * Z.of_nat i + 5)) (seq 0 n).
Definition guard {A} (pre:bool) (v:A) : outcome A := if pre then Ok v else Raises AssertionError.
Definition check (c:T) := let '(p1, p2) := fst c in let '((((a, b), i), m), g) := snd c in let f := feats (length p1) in
  outcome_eqb Z.eqb (guard (py_count_both_present_features_pre p1 p2) (py_count_both_present_features p1 p2)) a &&
  outcome_eqb Bool.eqb (guard (py_all_features_present_pre p1 p2) (py_all_features_present p1 p2)) b &&
  outcome_eqb Bool.eqb (guard (py_has_inconsistent_features_pre p1 p2) (py_has_inconsistent_features p1 p2)) i &&
  outcome_eqb zs_eqb (guard (py_mask_profile_pre p1 p2) (py_mask_profile p1 p2)) m &&
  outcome_eqb ivs_eqb (guard (py_get_blocks_from_profile_pre f p2) (py_get_blocks_from_profile f p2)) g.
(* the declarative readings of ProfileHelpers.v evaluated on the implementation's output *)
Definition prop (c:T) := let '(p1, p2) := fst c in let '((((a, b), i), m), g) := snd c in let f := feats (length p1) in
  if Nat.eqb (length p1) (length p2) then
    match a with Ok v => v =? spec_count_both p1 p2 | Raises _ => false end &&
    match b with Ok v => Bool.eqb v (spec_all_present p1 p2) | Raises _ => false end &&
    match i with Ok v => Bool.eqb v (spec_inconsistent p1 p2) | Raises _ => false end &&
    match m with Ok v => zs_eqb v (spec_mask p1 p2) | Raises _ => false end &&
    match g with Ok v => ivs_eqb v (spec_blocks f p2) | Raises _ => false end
  else match a, b, i, m, g with Raises _, Raises _, Raises _, Raises _, Raises _ => true | _, _, _, _, _ => false end.
"""

PRE_WHILE = """From Coq Require Import PrimFloat Uint63 QArith.
From IQ.gen Require Import Prims Loops.
From IQ Require Import Intervals IntervalsSpec.
Open Scope Z_scope.
(* the REGENERATED functions with `while` loops (gen/Loops.v, checked form: py_run) and get_exon against the Python functions *)
Inductive fout := FOk (f:float) | FRaises (k:Z).
Definition fdiv (a b:Z) : float := PrimFloat.div (PrimFloat.of_uint63 (Uint63.of_Z a)) (PrimFloat.of_uint63 (Uint63.of_Z b)).
Definition run_out {A} (r:py_run A) : outcome A := match r with py_Done v => Ok v | py_Raises k => Raises k | py_OutOfFuel => Raises 99%N end.
(* float(i) / float(u) with i, u integers: the translation keeps the quotient unreduced (numerator i, denominator u > 0) *)
Definition qrun_matches (r:py_run Q) (o:fout) : bool :=
  match r, o with py_Done q, FOk f => PrimFloat.eqb (fdiv (Qnum q) (Z.pos (Qden q))) f | py_Raises k, FRaises k' => Z.eqb (Z.of_N k) k' | _, _ => false end.
Definition T := (((list iv * list iv) * (iv * Z)) * (((((outcome Z * outcome Z) * fout) * fout) * outcome (list iv)) * outcome iv))%type.
Definition fuel := 60%nat.
Definition check (c:T) := let '((A, B), (r, p)) := fst c in let '(((((st, sf), cv), j), m), ge) := snd c in
  outcome_eqb Z.eqb (run_out (py_sum_intervals_to_point fuel A p)) st && outcome_eqb Z.eqb (run_out (py_sum_intervals_from_point fuel A p)) sf &&
  qrun_matches (py_read_coverage_fraction fuel A B) cv && qrun_matches (py_jaccard_similarity fuel A B) j &&
  outcome_eqb ivs_eqb (run_out (py_merge_ranges fuel A B)) m &&
  outcome_eqb iv_eqb (if negb (p <=? Z.of_nat (length A)) then Raises AssertionError else if py_get_exon_pre r A p then Ok (py_get_exon r A p) else Raises IndexError) ge.
(* the specifications of these functions are evaluated in the other correspondences; here: prefix + suffix sums add up inside the list *)
Definition prop (c:T) := let '((A, B), (r, p)) := fst c in let '(((((st, sf), cv), j), m), ge) := snd c in
  match st, sf with Ok x, Ok y => if sdb A then (x + y <=? fold_right (fun a s => (snd a - fst a + 1) + s) 0 A) else true | _, _ => true end.
"""

PRE_HELPERS2 = """From IQ.gen Require Import Prims Loops.
From IQ Require Import Intervals IntervalsSpec ProfileHelpers ProfileHelpers2.
Open Scope Z_scope.
(* further REGENERATED profile helpers (gen/Loops.v; no hand model): value under py_<f>_pre, an exception otherwise *)
Definition T := (((list Z * list Z) * (option iv * Z)) * ((((((outcome bool * outcome bool) * outcome Z) * outcome (list Z)) * outcome bool) * outcome bool) * outcome Z))%type.
(* py_<f>_pre is sufficient for the absence of exceptions (for loops with an early exit it asks for every iteration to be in range): under it
   the value is the implementation's; an exception of the implementation implies that it fails *)
Definition agrees {A} (e:A -> A -> bool) (pre:bool) (v:A) (o:outcome A) : bool := match o with Ok w => negb pre || e v w | Raises _ => negb pre end.
Definition check (c:T) := let '((p1, p2), (org, lim)) := fst c in let '((((((ov, eq), df), fm), lt), rt), ri) := snd c in
  let rg := match org with Some r => r | None => whole p1 end in
  agrees Bool.eqb (py_has_overlapping_features_pre p1 p2 org) (py_has_overlapping_features p1 p2 org) ov &&
  agrees Bool.eqb (py_equal_profiles_in_range_pre p1 p2 rg) (py_equal_profiles_in_range p1 p2 rg) eq &&
  agrees Z.eqb (py_difference_in_present_features_pre p1 p2 lim org) (py_difference_in_present_features p1 p2 lim org) df &&
  agrees zs_eqb (py_find_matching_positions_pre p1 p2) (py_find_matching_positions p1 p2) fm &&
  agrees Bool.eqb (py_left_truncated_pre p1 p2) (py_left_truncated p1 p2) lt &&
  agrees Bool.eqb (py_right_truncated_pre p1 p2) (py_right_truncated p1 p2) rt &&
  agrees Z.eqb (py_rindex_pre p1 lim) (py_rindex p1 lim) ri.
(* the declarative readings of ProfileHelpers2.v on the implementation's output, for profiles of equal length and ranges inside them *)
Definition prop (c:T) := let '((p1, p2), (org, lim)) := fst c in let '((((((ov, eq), df), fm), lt), rt), ri) := snd c in
  let rg := match org with Some r => r | None => whole p1 end in
  if Nat.eqb (length p1) (length p2) && range_ok p1 rg then
    match ov with Ok v => Bool.eqb v (spec_overlapping p1 p2 rg) | Raises _ => false end &&
    match eq with Ok v => Bool.eqb v (spec_equal_in_range p1 p2 rg) | Raises _ => false end &&
    match df with Ok v => if lim =? -1 then v =? spec_difference p1 p2 rg else (v <=? spec_difference p1 p2 rg) && ((v =? spec_difference p1 p2 rg) || (lim <? v)) | Raises _ => false end &&
    match fm with Ok v => zs_eqb v (spec_matching p1 p2) | Raises _ => false end &&
    match lt with Ok v => Bool.eqb v (spec_left_truncated p1 p2) | Raises _ => false end &&
    match rt with Ok v => Bool.eqb v (spec_right_truncated p1 p2) | Raises _ => false end &&
    match ri, last_pos p1 lim with Ok v, Some k => v =? k | Raises _, None => true | _, _ => false end
  else true.
"""

PRE_SWEEP = """From Coq Require Import PrimFloat Uint63.
From IQ.gen Require Import Prims.
From IQ Require Import Intervals IntervalsSpec.
Open Scope Z_scope.
Inductive fout := FOk (f:float) | FRaises (k:Z).
Definition fdiv (a b:Z) : float := PrimFloat.div (PrimFloat.of_uint63 (Uint63.of_Z a)) (PrimFloat.of_uint63 (Uint63.of_Z b)).
Definition fout_matches (m:outcome (Z*Z)) (o:fout) : bool :=
  match m, o with Ok (i, u), FOk f => PrimFloat.eqb (fdiv i u) f | Raises k, FRaises k' => Z.eqb (Z.of_N k) k' | _, _ => false end.
Definition T := ((list iv * list iv) * ((fout * outcome (list iv)) * fout))%type.
Definition check (c:T) := let '(A, B) := fst c in let '(j, m, cv) := snd c in
  fout_matches (jaccard A B) j && outcome_eqb ivs_eqb (merge_ranges A B) m && fout_matches (coverage_fraction A B) cv.
Definition cnt_i (A B:list iv) := count_in (win_lo [A;B] []) (win_n [A;B] []) (fun p => cover A p && cover B p).
Definition cnt_u (A B:list iv) := count_in (win_lo [A;B] []) (win_n [A;B] []) (fun p => cover A p || cover B p).
Definition cnt_a (A:list iv) := count_in (win_lo [A] []) (win_n [A] []) (cover A).
(* for strictly separated lists: Jaccard = |A∩B|/|A∪B|, merge = the union as disjoint sorted blocks, coverage = |A∩B|/|A| *)
Definition prop (c:T) := let '(A, B) := fst c in let '(j, m, cv) := snd c in
  if sdb A && sdb B then
    (match j with FOk f => negb (cnt_u A B =? 0) && PrimFloat.eqb (fdiv (cnt_i A B) (cnt_u A B)) f | FRaises _ => cnt_u A B =? 0 end) &&
    (match m with Ok l => spec_merge A B l | Raises _ => cnt_u A B =? 0 end) &&
    (match cv with FOk f => negb (cnt_a A =? 0) && PrimFloat.eqb (fdiv (cnt_i A B) (cnt_a A)) f | FRaises _ => cnt_a A =? 0 end)
  else true.
"""

PRE_SINGLE = """From IQ.gen Require Import Prims.
From IQ Require Import Intervals IntervalsSpec.
Open Scope Z_scope.
Definition oz_eqb := outcome_eqb Z.eqb.
Definition ooz_eqb := outcome_eqb (opt_eqb Z.eqb).
Definition T := ((list iv * Z) * (Z * outcome Z * outcome Z * outcome (option Z) * outcome (option Z) * list iv))%type.
Definition check (c:T) := let '(l, pos) := fst c in let '(t, st, sf, bs, bsr, j) := snd c in
  (total l =? t) && oz_eqb (sum_to_point l pos) st && oz_eqb (sum_from_point l pos) sf &&
  ooz_eqb (bin_search l pos) bs && ooz_eqb (bin_search_rev l pos) bsr && ivs_eqb (jfb l) j.
Definition prop (c:T) := let '(l, pos) := fst c in let '(t, st, sf, bs, bsr, j) := snd c in
  if sdb l then
    spec_total l t &&
    match l with [] => true | _ =>
      (match st with Ok v => spec_sum_to l pos v | _ => false end) && (match sf with Ok v => spec_sum_from l pos v | _ => false end) &&
      (match bs with Ok (Some i) => spec_bin_search l pos i | _ => false end) &&
      (match bsr with Ok (Some i) => spec_bin_search_rev l pos i | _ => false end) end &&
    spec_jfb l j && (negb (gapped l) || match l with [] => true | a :: _ => ivs_eqb (get_exons (fst a, snd (last l a)) j) l end)
  else true.
"""

PRE_EXONS = """From IQ.gen Require Import Prims.
From IQ Require Import Intervals IntervalsSpec.
Open Scope Z_scope.
Definition oiv_eqb := outcome_eqb iv_eqb.
(* ((region, introns, position), (get_exons, get_exon, following, preceding)) *)
Definition T := ((iv * list iv * Z) * (list iv * outcome iv * outcome iv * outcome iv))%type.
Definition check (c:T) := let '(r, J, p) := fst c in let '(e, ge, fo, pr) := snd c in
  ivs_eqb (get_exons r J) e && oiv_eqb (get_exon r J p) ge && oiv_eqb (following_exon r J p) fo && oiv_eqb (preceding_exon r J p) pr.
Definition inside (r:iv) (J:list iv) := forallb (fun j => (fst r <? fst j) && (snd j <? snd r)) J.
Definition prop (c:T) := let '(r, J, p) := fst c in let '(e, ge, fo, pr) := snd c in
  if gapped J && inside r J && (fst r <=? snd r) then
    spec_get_exons r J e &&
    (* get_exon / following / preceding pick the right element of get_exons *)
    (if (0 <=? p) && (p <=? Z.of_nat (length J)) && (0 <? Z.of_nat (length J))
     then match ge with Ok x => iv_eqb x (nthz e p (0,0)) | _ => false end else true) &&
    (if (0 <=? p) && (p <? Z.of_nat (length J)) then match fo with Ok x => iv_eqb x (nthz e (p + 1) (0,0)) | _ => false end else true) &&
    (if (0 <=? p) && (p <=? Z.of_nat (length J)) then match pr with Ok x => iv_eqb x (nthz e p (0,0)) | _ => false end else true)
  else true.
"""

PRE_SPLIT = """From IQ.gen Require Import Prims.
From IQ Require Import Intervals IntervalsSpec.
Open Scope Z_scope.
Definition T := (list iv * list iv)%type.
Definition check (c:T) := opt_eqb ivs_eqb (split_exons (fst c)) (Some (snd c)).
Definition prop (c:T) := spec_split (fst c) (snd c).
"""

PRE_ISO = """From IQ.gen Require Import Prims.
From IQ Require Import Intervals IntervalsSpec.
Open Scope Z_scope.
(* ((kind, K, F, region), (profile, range)) ; kind 0 = equal_ranges delta 0, 1 = contains *)
Definition cmpk (kind:Z) : iv -> iv -> bool := if kind =? 0 then (fun f k => py_equal_ranges f k 0) else (fun f k => py_contains f k).
Definition T := ((Z * list iv * list iv * iv) * (list Z * iv))%type.
Definition check (c:T) := let '(kind, K, F, r) := fst c in let p := isoform_profile (cmpk kind) K F r in
  zs_eqb p (fst (snd c)) && iv_eqb (profile_range_lt1 p) (snd (snd c)).
Definition prop (c:T) := let '(kind, K, F, r) := fst c in spec_isoform_profile (cmpk kind) K F r (fst (snd c)).
"""

PRE_OV = """From IQ.gen Require Import Prims.
From IQ Require Import Intervals IntervalsSpec Profile.
Open Scope Z_scope.
(* ((kind, delta, absd), K, gene_region, R, mapped_region, polya, polyt) -> (gene profile, read profile, range)
   kind 0: introns (absence = overlaps_at_least(.., absd)); kind 1: exons (absence = contains) *)
Definition T := (((Z*Z*Z) * list iv * iv * list iv * iv * Z * Z) * (list Z * list Z * iv))%type.
Definition absk (kind absd:Z) : iv -> iv -> bool := if kind =? 0 then (fun reg f => py_overlaps_at_least reg f absd) else (fun reg f => py_contains reg f).
Definition model (c:T) := let '(kda, K, gr, R, mr, pa, pt) := fst c in let '(kind, d, absd) := kda in
  overlapping_profile (fun r k => py_equal_ranges r k d) (absk kind absd) d K gr R mr pa pt.
Definition check0 (c:T) := match model c with Some (g, r, rg) => zs_eqb g (fst (fst (snd c))) && zs_eqb r (snd (fst (snd c))) && iv_eqb rg (snd (snd c)) | None => false end.
(* the structural sweep `Profile.gp` (for which the declarative characterisation gp_char is proved) agrees with the state-machine model *)
Definition raw_agrees (c:T) := let '(kda, K, gr, R, mr, pa, pt) := fst c in let '(kind, d, absd) := kda in
  let ini := fun k => if absk kind absd mr k then -1 else 0 in
  match ovs (fun r k => py_equal_ranges r k d) (absk kind absd) (Datatypes.S (length K + length R)) mr K (map ini K) 0 R (map (fun r => if absk kind absd gr r then -1 else 0) R) 0 [] [] [] with
  | Some (g, _, _) => zs_eqb g (Profile.gp d ini K R false) | None => false end.
Definition check (c:T) := check0 c && raw_agrees c.
Definition eqd (d:Z) := fun r k : iv => py_equal_ranges r k d.
(* present iff a read feature matches within delta (closest candidate); the code deviates only outside H1 (features longer than delta) / H2 (read features more than delta apart): known findings *)
Definition prop (c:T) := let '(kda, K, gr, R, mr, pa, pt) := fst c in let '(kind, d, absd) := kda in let '(g, r, rg) := snd c in
  spec_sound (eqd d) K R g r && spec_gene_present (eqd d) d K R g pa pt.
"""

PRE_NOV = """From IQ.gen Require Import Prims.
From IQ Require Import Intervals IntervalsSpec.
Open Scope Z_scope.
(* ((minov, delta), K, R, polya, polyt) -> outcome (gene profile, read profile, range) *)
Definition T := (((Z*Z) * list iv * list iv * Z * Z) * outcome (list Z * list Z * iv))%type.
Definition model (c:T) := let '(md, K, R, pa, pt) := fst c in
  nonoverlapping_profile (fun r k => py_overlaps_at_least_when_overlap r k (fst md)) (snd md) K R pa pt.
Definition res_eqb := outcome_eqb (pair_eqb (pair_eqb zs_eqb zs_eqb) iv_eqb).
Definition check (c:T) := res_eqb (model c) (snd c).
(* a split exon is marked present iff some overlapping read exon satisfies the comparator (before the polyA/polyT masking) *)
Definition prop (c:T) := let '(md, K, R, pa, pt) := fst c in
  match snd c with
  | Raises _ => true
  | Ok (g, r, rg) =>
    if sdb K && sdb R then
      forallb (fun kg => let '(k, v) := kg in
        (v =? -2) || Bool.eqb (v =? 1) (existsb (fun rr => py_overlaps rr k && py_overlaps_at_least_when_overlap rr k (fst md)) R)) (combine K g) &&
      forallb (fun rv => let '(rr, v) := rv in
        Bool.eqb (v =? 1) (existsb (fun k => py_overlaps rr k && py_overlaps_at_least_when_overlap rr k (fst md)) K)) (combine R r)
    else true
  end.
"""

PRE_TRUNC = """From IQ.gen Require Import Prims.
From IQ Require Import Intervals IntervalsSpec.
Open Scope Z_scope.
Definition T := ((list iv * Z * Z) * outcome (list iv))%type.
Definition check (c:T) := let '(l, pa, pt) := fst c in outcome_eqb ivs_eqb (truncate_to_polya l pa pt) (snd c).
(* set-theoretic truncation: keep the positions of the read in [polyT, polyA] *)
Definition prop (c:T) := let '(l, pa, pt) := fst c in
  if sdb l then match snd c with
    | Ok r => forall_in (win_lo [l;r] [pa;pt]) (win_n [l;r] [pa;pt])
               (fun p => Bool.eqb (cover r p) (cover l p && ((pa =? -1) || (p <=? pa)) && ((pt =? -1) || (pt <=? p))))
    | Raises _ => false end
  else true.
"""


def run(ctx):
    from src import common as c
    from src.gene_info import GeneInfo, FeatureProfiles
    from src.long_read_profiles import OverlappingFeaturesProfileConstructor, NonOverlappingFeaturesProfileConstructor
    quick = ctx.tier == "quick"
    rnd = ctx.rnd
    ctx.prepare("C19.v")

    # ---- 0. translated loop-free predicates: exhaustive validation of the translator's output
    funcs = [c.overlaps, c.overlap_intervals, c.overlaps_at_least, c.overlaps_at_least_when_overlap, c.intersection_len, c.left_of, c.equal_ranges,
             c.covers_end, c.covers_start, c.contains, c.contains_well_inside, c.contains_approx, c.max_range, c.interval_len, None]
    with_delta = {2, 3, 6, 10, 11}
    ivs = [(a, b) for a in range(0, 6) for b in range(0, 6)]
    cases = []
    def enc(v):
        if isinstance(v, bool): return (1 if v else 0, 0)
        if isinstance(v, tuple): return v
        return (v, 0)
    for fid, f in enumerate(funcs):
        for a in ivs:
            for b in (ivs if fid != 13 else [(0, 0)]):
                for d in ((0, 1, 2, 3) if fid in with_delta else (0,)):
                    if fid == 14: v = c.cmp(a[0], b[0])
                    elif fid == 13: v = f(a)
                    elif fid in with_delta: v = f(a, b, d)
                    else: v = f(a, b)
                    cases.append(("((((%d, %s), %s), %d), %s)" % (fid, civ(a), civ(b), d, civ(enc(v))), {"function": fid, "a": a, "b": b, "delta": d, "impl": v}))
    ctx.rule("translated predicates of src/common.py: all interval pairs over [0..5] (incl. inverted) x delta 0..3, exhaustive")
    mism, viol = ctx.corr("translated_predicates", PRE_PRIMS, cases, shard=3000)
    ctx.corr_report("translated_predicates", mism, viol)

    # ---- 0b. regenerated loop functions (gen/Loops.v, tools/translate_loops.py): validation of the translator's output against the Python functions
    cases = []
    ulists = [list(l) for l in sd_lists(5, 3)] + [[(3, 5), (1, 2)], [(1, 4), (2, 6)], [(2, 2), (2, 2), (5, 4)], [(4, 1)], [(1, 3), (4, 6), (7, 7)]]
    for l in ulists:
        for r in ((0, 8), (1, 6)) + (((l[0][0], l[-1][1]),) if l else ()):
            for pos in range(-len(l) - 2, len(l) + 3):
                e = call(c.get_exons, r, l)
                if e[0] != "ok" or any(not isinstance(x, int) for t in e[1] for x in t): continue
                fo = call(c.get_following_exon_from_junctions, r, l, pos); pr = call(c.get_preceding_exon_from_junctions, r, l, pos)
                t = c.intervals_total_length(l); j = c.junctions_from_blocks(l)
                cases.append(("(((%s, %s), %s), ((((%s, %s), %s), %s), %s))" % (civs(l), civ(r), cz(pos), cz(t), civs(j), civs(e[1]), cout(fo, civ), cout(pr, civ)),
                              {"list": l, "region": r, "position": pos, "total": t, "junctions": j, "get_exons": e[1], "following": fo, "preceding": pr}))
    if quick and len(cases) > 6000: cases = rnd.sample(cases, 6000)
    ctx.rule("regenerated loop functions of src/common.py (gen/Loops.v: intervals_total_length, junctions_from_blocks, get_exons with two different pairs of sentinel values, get_following/preceding_exon_from_junctions incl. their exceptions): lists of <=3 intervals over 5 positions + unsorted / overlapping / inverted lists x 3 regions x positions -n-2..n+2; bridged to the hand models for all inputs by C19_*_is_the_source")
    mism, viol = ctx.corr("translated_loops", PRE_LOOPS, cases, shard=1000, nontrivial=lambda o: len(o["list"]) > 1)
    ctx.corr_report("translated_loops", mism, viol)

    # ---- 0c. regenerated profile helpers without a hand model: exhaustive small-domain agreement with the Python functions + their declarative readings
    cases = []
    vals = (-2, -1, 0, 1)
    profs = [list(p) for n in range(0, 4) for p in itertools.product(vals, repeat=n)]
    pairs = [(a, b) for a in profs for b in profs if len(a) == len(b)]
    pairs += [(a, b) for a in profs[:30] for b in profs[:30] if len(a) != len(b)]
    for _ in range(300 if quick else 3000):
        n = rnd.randint(4, 12); pairs.append(([rnd.choice(vals) for _ in range(n)], [rnd.choice(vals) for _ in range(n)]))
    for a, b in pairs:
        feats = [(10 * i, 10 * i + 5) for i in range(len(a))]
        r = [call(c.count_both_present_features, a, b), call(c.all_features_present, a, b), call(c.has_inconsistent_features, a, b),
             call(c.mask_profile, a, b), call(c.get_blocks_from_profile, feats, b)]
        cases.append(("((%s, %s), ((((%s, %s), %s), %s), %s))" % (czs(a), czs(b), cout(r[0], cz), cout(r[1], cbool), cout(r[2], cbool), cout(r[3], czs), cout(r[4], civs)),
                      {"profile1": a, "profile2": b, "count_both": r[0], "all_present": r[1], "inconsistent": r[2], "mask": r[3], "blocks": r[4]}))
    ctx.rule("regenerated profile helpers of src/common.py without a hand model (gen/Loops.v: count_both_present_features, all_features_present, has_inconsistent_features, mask_profile, get_blocks_from_profile): every pair of profiles of equal length <= 3 over {-2,-1,0,1} (exhaustive) + pairs of unequal length (AssertionError) + random profiles of length 4-12; specification = the position-wise readings of ProfileHelpers.v (proved of the regenerated functions in C19_*_spec)")
    mism, viol = ctx.corr("translated_profile_helpers", PRE_HELPERS, cases, shard=1500, nontrivial=lambda o: 1 in o["profile1"] and 1 in o["profile2"])
    ctx.corr_report("translated_profile_helpers", mism, viol)

    # ---- 0d. regenerated functions with `while` loops (checked form, explicit fuel) and get_exon
    cases = []
    wl = [list(l) for l in sd_lists(5, 2)] + [[(1, 1), (3, 3), (5, 6)], [(3, 5), (1, 2)], [(1, 4), (2, 6)], [(2, 2), (2, 2)]]          # no inverted intervals: the float check needs non-negative integers
    wpairs = [(a, b) for a in wl for b in wl]
    if quick and len(wpairs) > 1500: wpairs = rnd.sample(wpairs, 1500)
    for _ in range(100 if quick else 1500): wpairs.append((rand_sd(rnd, rnd.randint(1, 12), span=120), rand_sd(rnd, rnd.randint(1, 12), span=120)))
    cfo = lambda r: "(FOk (%s)%%float)" % float(r[1]).hex() if r[0] == "ok" else "(FRaises %d)" % r[1]          # negative values need the parentheses
    for A, B in wpairs:
        for pos in ((-1, 0, 2, 4, 7) if len(A) <= 3 else (rnd.randint(0, 130),)):
            r = (0, 9)
            st = call(c.sum_intervals_to_point, A, pos); sf = call(c.sum_intervals_from_point, A, pos)
            cv = call(c.read_coverage_fraction, A, B); j = call(c.jaccard_similarity, A, B); m = call(c.merge_ranges, A, B)
            ge = call(c.get_exon, r, A, pos)
            cases.append(("(((%s, %s), (%s, %s)), (((((%s, %s), %s), %s), %s), %s))" % (civs(A), civs(B), civ(r), cz(pos), cout(st, cz), cout(sf, cz), cfo(cv), cfo(j), cout(m, civs), cout(ge, civ)),
                          {"A": A, "B": B, "pos": pos, "sum_to": st, "sum_from": sf, "coverage": cv, "jaccard": j, "merge": m, "get_exon(region (0,9), A, pos)": ge}))
    ctx.rule("regenerated functions with while loops (gen/Loops.v, fuel 60: sum_intervals_to_point, sum_intervals_from_point, read_coverage_fraction, jaccard_similarity, merge_ranges; and get_exon): pairs of lists of <=2 intervals over 5 positions + unsorted / overlapping / inverted lists x 5 positions, + random lists of up to 12 intervals; all bridged to the hand models for all inputs and every sufficient fuel by C19_*_is_the_source (jaccard_similarity / merge_ranges by a simulation on the included arrays)")
    mism, viol = ctx.corr("translated_while", PRE_WHILE, cases, shard=800, nontrivial=lambda o: len(o["A"]) > 0 and len(o["B"]) > 0, ctype="T")
    ctx.corr_report("translated_while", mism, viol)

    # ---- 0e. further regenerated profile helpers without a hand model (ranges, default arguments, membership / index)
    def call2(f, *a):
        try: return ("ok", f(*a))
        except (IndexError, AssertionError): return ("exc", 1)
        except ValueError: return ("exc", 5)
    cases = []
    vals = (-1, 0, 1)
    profs = [list(p) for n in range(0, 4) for p in itertools.product(vals, repeat=n)]
    pairs = [(a, b) for a in profs for b in profs if len(a) == len(b)] + [(a, b) for a in profs[:13] for b in profs[:13] if len(a) != len(b)]
    for a, b in pairs:
        n = len(a)
        ranges = [None] + [(x, y) for x in range(0, n + 1) for y in range(x, n + 1)] + ([(0, n + 1), (-1, n), (2, 1)] if n <= 2 else [])
        for rg in ranges:
            for lim in ((-1, 0, 1) if rg is None or rg == (0, n) else (-1,)):
                ov = call2(c.has_overlapping_features, a, b, rg) if rg is not None else call2(c.has_overlapping_features, a, b)
                eq = call2(c.equal_profiles_in_range, a, b, rg if rg is not None else (0, n))
                df = call2(c.difference_in_present_features, a, b, lim, rg)
                fm = call2(c.find_matching_positions, a, b); lt = call2(c.left_truncated, a, b); rt = call2(c.right_truncated, a, b); ri = call2(c.rindex, a, lim)
                cases.append(("(((%s, %s), (%s, %s)), ((((((%s, %s), %s), %s), %s), %s), %s))" % (czs(a), czs(b), copt(rg, civ), cz(lim), cout(ov, cbool), cout(eq, cbool), cout(df, cz), cout(fm, czs), cout(lt, cbool), cout(rt, cbool), cout(ri, cz)),
                              {"profile1": a, "profile2": b, "range": rg, "diff_limit / element": lim, "overlapping": ov, "equal_in_range": eq, "difference": df, "matching": fm, "left_truncated": lt, "right_truncated": rt, "rindex(profile1, element)": ri}))
    if quick and len(cases) > 9000: cases = rnd.sample(cases, 9000)
    ctx.rule("further regenerated profile helpers (gen/Loops.v: has_overlapping_features, equal_profiles_in_range, difference_in_present_features with its defaults, find_matching_positions, left_truncated, right_truncated, rindex): every pair of profiles of equal length <= 3 over {-1,0,1} x every range inside the profile + ranges outside it (IndexError) + diff_limit -1/0/1; specification = the readings of ProfileHelpers2.v")
    mism, viol = ctx.corr("translated_profile_helpers2", PRE_HELPERS2, cases, shard=1500, nontrivial=lambda o: 1 in o["profile1"] and 1 in o["profile2"], ctype="T")
    ctx.corr_report("translated_profile_helpers2", mism, viol)

    # ---- 1. two-list sweeps: jaccard, merge_ranges, read_coverage_fraction
    U = 6 if quick else 8
    lists = sd_lists(U, 3)
    pairs = [(A, B) for A in lists for B in lists]
    if quick and len(pairs) > 12000: pairs = rnd.sample(pairs, 12000)
    for _ in range(200 if quick else 3000):
        pairs.append((rand_sd(rnd, rnd.randint(1, 25), span=300), rand_sd(rnd, rnd.randint(1, 25), span=300)))
    # touching / abutting lists (still strictly separated is required by the code's contract; abutting blocks are allowed)
    for _ in range(300 if quick else 2000):
        n = rnd.randint(1, 6); pts = sorted(rnd.sample(range(1, 60), 2 * n)); A = [(pts[2 * i], pts[2 * i + 1]) for i in range(n)]
        B = [(a[1] + 1, a[1] + rnd.randint(1, 3)) for a in A if rnd.random() < .5]
        B = [b for i, b in enumerate(B) if all(b[1] < x[0] or b[0] > x[1] for x in B[:i])]
        pairs.append((A, sorted(B)))
    cases = []
    for A, B in pairs:
        j = call(c.jaccard_similarity, A, B); m = call(c.merge_ranges, A, B); cv = call(c.read_coverage_fraction, A, B)
        cases.append(("((%s, %s), ((%s, %s), %s))" % (civs(A), civs(B), cfout(j), cout(m, civs), cfout(cv)), {"A": A, "B": B, "jaccard": j, "merge": m, "coverage": cv}))
    ctx.rule("two-list sweeps: all pairs of strictly separated lists of <=3 intervals over %d positions%s + random lists of up to 40 intervals + abutting blocks; non-trivial = both lists non-empty" % (U, " (sampled 12000)" if quick else " (exhaustive)"))
    rnd.shuffle(cases)
    mism, viol = ctx.corr("sweeps(jaccard,merge_ranges,coverage)", PRE_SWEEP, cases, shard=500, nontrivial=lambda o: o["A"] and o["B"])
    ctx.corr_report("sweeps(jaccard,merge_ranges,coverage)", mism, viol)

    # ---- 2. single-list functions
    cases = []
    single = sd_lists(8 if quick else 9, 3) + [rand_sd(rnd, rnd.randint(1, 30), span=300) for _ in range(100 if quick else 2000)]
    for l in single:
        poss = range(0, 11) if (l and l[-1][1] <= 10) or not l else sorted(set([l[0][0] - 1, l[-1][1] + 1] + [x + d for e in rnd.sample(l, min(len(l), 6)) for x in e for d in (-1, 0, 1)]))
        for pos in poss:
            t = c.intervals_total_length(l)
            st = call(c.sum_intervals_to_point, l, pos); sf = call(c.sum_intervals_from_point, l, pos)
            bs = call(c.interval_bin_search, l, pos); bsr = call(c.interval_bin_search_rev, l, pos)
            j = c.junctions_from_blocks(l)
            some = lambda v: "(Some %s)" % cz(v)
            cases.append(("((%s, %s), (((((%s, %s), %s), %s), %s), %s))" % (civs(l), cz(pos), cz(t), cout(st, cz), cout(sf, cz), cout(bs, some), cout(bsr, some), civs(j)),
                          {"list": l, "pos": pos, "total": t, "sum_to": st, "sum_from": sf, "bin_search": bs, "bin_search_rev": bsr, "junctions": j}))
    ctx.rule("single-list functions (total length, prefix/suffix sums, both binary searches, junctions_from_blocks + get_exons round trip): all strictly separated lists of <=3 intervals over 8/9 positions x every position, + random long lists at boundary positions")
    rnd.shuffle(cases)
    mism, viol = ctx.corr("single_list", PRE_SINGLE, cases, shard=600, nontrivial=lambda o: len(o["list"]) > 0)
    ctx.corr_report("single_list", mism, viol)

    # ---- 3. get_exons / get_exon / following / preceding
    cases = []
    jl = [l for l in sd_lists(8, 3)]
    for J in jl:
        regs = [(0, 10), (1, 9)] + ([(J[0][0], J[-1][1])] if J else [])
        for r in regs:
            for p in range(-2, len(J) + 2):
                e = call(c.get_exons, r, J)
                if e[0] != "ok": continue
                e = [tuple(int(x) for x in t) if all(abs(x) != float("inf") for x in t) else None for t in e[1]]
                if None in e: continue
                ge = call(c.get_exon, r, J, p); fo = call(c.get_following_exon_from_junctions, r, J, p); pr = call(c.get_preceding_exon_from_junctions, r, J, p)
                cases.append(("(((%s, %s), %s), (((%s, %s), %s), %s))" % (civ(r), civs(J), cz(p), civs(e), cout(ge, civ), cout(fo, civ), cout(pr, civ)),
                              {"region": r, "introns": J, "position": p, "get_exons": e, "get_exon": ge, "following": fo, "preceding": pr}))
    if quick and len(cases) > 6000: cases = rnd.sample(cases, 6000)
    ctx.rule("get_exons/get_exon/get_following_exon_from_junctions/get_preceding_exon_from_junctions: intron lists of <=3 introns over 8 positions x 3 regions x positions -2..n+1")
    mism, viol = ctx.corr("exon_accessors", PRE_EXONS, cases, shard=600, nontrivial=lambda o: len(o["introns"]) > 0)
    ctx.corr_report("exon_accessors", mism, viol)

    # ---- 4. split_exons: all sets of <= 3 exons over 7/8 positions + random gene-like exon sets
    cases = []
    Us = 7 if quick else 8
    allex = [(a, b) for a in range(1, Us + 1) for b in range(a, Us + 1)]
    sets = [list(s) for n in (1, 2, 3) for s in itertools.combinations(allex, n)]
    if quick and len(sets) > 3000: sets = rnd.sample(sets, 3000)
    for _ in range(300 if quick else 3000):
        n = rnd.randint(2, 12); s = set()
        for i in range(n):
            a = rnd.randint(1, 200); s.add((a, a + rnd.randint(0, 40)))
        sets.append(sorted(s))
    def key_split(o):
        return None
    def key_split_old(o):
        ex, bl = o["exons"], o["impl"]
        bad = [b for b in bl if b[0] > b[1]]
        if bad and all(b[0] == b[1] + 1 and any(e[1] == b[1] for e in ex) and any(e[0] == b[0] for e in ex) for b in bad):
            real = [b for b in bl if b[0] <= b[1]]
            cov = lambda L, p: any(a <= p <= b for a, b in L)
            if real == sorted(real) and all(cov(real, p) == cov(ex, p) for p in range(0, 260)): return "C19:split-exons-empty-block"
        return None
    for ex in sets:
        r = call(GeneInfo.split_exons, ex)
        if r[0] != "ok":
            ctx.violation(None, "split_exons raises", {"exons": ex}); continue
        cases.append(("(%s, %s)" % (civs(ex), civs(r[1])), {"exons": ex, "impl": r[1]}))
    ctx.rule("split_exons: all sets of <=3 exons over %d positions + random sets of up to 12 overlapping exons; non-trivial = at least two exons overlap" % Us)
    mism, viol = ctx.corr("split_exons", PRE_SPLIT, cases, shard=600, nontrivial=lambda o: any(a != b and a[0] <= b[1] and b[0] <= a[1] for a in o["exons"] for b in o["exons"]))
    ctx.corr_report("split_exons", mism, viol, keyfn=key_split)

    # ---- 5. FeatureProfiles.set_profiles on gene-like feature sets (equality comparator on introns/exons; contains on split exons)
    cases = []
    for it in range(1500 if quick else 12000):
        ntr = rnd.randint(1, 4); trs = []
        pool = sorted(rnd.sample(range(1, 40 if it % 2 else 400), rnd.randint(4, 12)))
        pool = pool[:len(pool) // 2 * 2]
        exon_pool = [(pool[2 * i], pool[2 * i + 1]) for i in range(len(pool) // 2)]
        for t in range(ntr):
            ex = sorted(set(rnd.sample(exon_pool, rnd.randint(1, len(exon_pool)))))
            if rnd.random() < .3 and len(ex) > 1:   # alternative site
                i = rnd.randrange(len(ex)); a, b = ex[i]; ex[i] = (a, max(a, b - rnd.randint(0, 3)))
            trs.append(ex)
        all_ex = sorted(set(e for t in trs for e in t)); all_in = sorted(set(j for t in trs for j in c.junctions_from_blocks(t)))
        split = call(GeneInfo.split_exons, all_ex)
        if split[0] != "ok": continue
        split = split[1]
        for t in trs:
            region = (t[0][0], t[-1][1])
            for kind, K, F in ((0, all_in, c.junctions_from_blocks(t)), (0, all_ex, t), (1, split, t)):
                fp = FeatureProfiles(); fp.set_features(K)
                if call(fp.set_profiles, "t", F, region, partial(c.equal_ranges, delta=0) if kind == 0 else c.contains)[0] != "ok": continue
                prof = fp.profiles["t"]; rg = fp.profile_ranges["t"]
                cases.append(("((((%d, %s), %s), %s), (%s, %s))" % (kind, civs(K), civs(F), civ(region), czs(prof), civ(rg)),
                              {"kind": kind, "features": K, "transcript_features": F, "region": region, "profile": prof, "range": rg}))
    def key_iso(o):
        # an inverted empty split block (known finding of split_exons) is marked present in every isoform containing it
        return None
    ctx.rule("set_profiles: random genes of 1-4 transcripts over a shared exon pool (alternative sites), intron/exon/split-exon feature sets built as GeneInfo does; non-trivial = profile contains both 1 and a negative value")
    mism, viol = ctx.corr("isoform_profiles", PRE_ISO, cases, shard=500, nontrivial=lambda o: 1 in o["profile"] and min(o["profile"]) < 0)
    ctx.corr_report("isoform_profiles", mism, viol, keyfn=key_iso)

    # ---- 6. read profile constructors
    def key_ov(o):
        d = o["delta"]; K = o["known"]; R = o["read"]
        h1 = all(k[1] - k[0] + 1 > d for k in K); h2 = all(a[1] + d < b[0] for a, b in zip(R, R[1:]))
        if not h2: return "C19:profile-shadowed-match"
        if not h1: return "C19:profile-short-feature"
        return None
    cases = []
    Uo = 7
    feats = [(a, b) for a in range(1, Uo + 1) for b in range(a, Uo + 1)]
    small = []
    for nk in (1, 2):
        for K in itertools.combinations(feats, nk):
            for R in sd_lists(Uo, 2):
                if R: small.append((list(K), R))
    if len(small) > (2500 if quick else 30000): small = rnd.sample(small, 2500 if quick else 30000)
    for _ in range(1200 if quick else 10000):
        nk = rnd.randint(1, 8); K = sorted(set((a, a + rnd.randint(0, 30)) for a in (rnd.randint(1, 150) for _ in range(nk))))
        R = rand_sd(rnd, rnd.randint(1, 6), span=190)
        # make some read features close to known ones
        R2 = []
        for r in R:
            if rnd.random() < .6 and K:
                k = rnd.choice(K); r = (k[0] + rnd.randint(-4, 4), k[1] + rnd.randint(-4, 4))
                if r[0] > r[1]: r = (r[1], r[0])
            R2.append(r)
        R2 = sorted(set(R2)); R3 = []
        for r in R2:
            if not R3 or r[0] > R3[-1][1]: R3.append(r)
        if R3: small.append((K, R3))
    for K, R in small:
        for kind in (0, 1):
            d = rnd.choice([0, 1, 2, 3]) if K[-1][1] <= 10 else rnd.choice([0, 2, 4, 6])
            absd = rnd.choice([0, 1, 3])
            gene_region = (min(k[0] for k in K), max(k[1] for k in K))
            pa = rnd.choice([-1, -1, R[-1][1], R[-1][1] + 1, R[-1][1] - 2]); pt = rnd.choice([-1, -1, R[0][0], R[0][0] - 1, R[0][0] + 2])
            if pt != -1 and pt < 1: pt = -1
            cons = OverlappingFeaturesProfileConstructor(K, gene_region, comparator=partial(c.equal_ranges, delta=d),
                                                         absence_condition=(partial(c.overlaps_at_least, delta=absd) if kind == 0 else c.contains), delta=d)
            mapped = (R[0][0] - rnd.randint(0, 3), R[-1][1] + rnd.randint(0, 3))
            mp = call(cons.construct_profile_for_features, R, mapped, pa, pt)
            if mp[0] != "ok": continue
            mp = mp[1]
            cases.append(("((((((((%d,%d,%d), %s), %s), %s), %s), %s), %s), ((%s, %s), %s))" % (kind, d, absd, civs(K), civ(gene_region), civs(R), civ(mapped), cz(pa), cz(pt),
                          czs(mp.gene_profile), czs(mp.read_profile), civ(mp.gene_profile_range)),
                          {"kind": kind, "delta": d, "absence_delta": absd, "known": K, "gene_region": gene_region, "read": R, "mapped_region": mapped, "polya": pa, "polyt": pt,
                           "gene_profile": mp.gene_profile, "read_profile": mp.read_profile, "range": mp.gene_profile_range}))
    ctx.rule("OverlappingFeaturesProfileConstructor.construct_profile_for_features: 1-2 known features x read lists over 7 positions (sampled) + random genes of <=8 features with read features jittered around them, delta 0-6, polyA/polyT positions; non-trivial = a 1 in the gene profile")
    mism, viol = ctx.corr("overlapping_profile", PRE_OV, cases, shard=500, nontrivial=lambda o: 1 in o["gene_profile"])
    ctx.corr_report("overlapping_profile", mism, viol, keyfn=key_ov)

    cases = []
    nov = []
    for K in sd_lists(7, 3):
        for R in sd_lists(7, 2):
            if K and R: nov.append((K, R))
    if len(nov) > (3000 if quick else 40000): nov = rnd.sample(nov, 3000 if quick else 40000)
    for _ in range(1000 if quick else 10000):
        nov.append((rand_sd(rnd, rnd.randint(1, 10), span=200), rand_sd(rnd, rnd.randint(1, 6), span=200)))
    for K, R in nov:
        minov = rnd.choice([0, 1, 2, 5]); d = rnd.choice([0, 1, 3])
        pa = rnd.choice([-1, -1, R[-1][1], R[-1][1] + 1, K[-1][1] - 1]); pt = rnd.choice([-1, -1, R[0][0], max(1, R[0][0] - 1), K[0][0] + 1])
        cons = NonOverlappingFeaturesProfileConstructor(K, comparator=partial(c.overlaps_at_least_when_overlap, delta=minov), delta=d)
        r = call(lambda: cons.construct_profile(R, pa, pt))
        out = "(Raises %d%%N)" % r[1] if r[0] != "ok" else "(Ok ((%s, %s), %s))" % (czs(r[1].gene_profile), czs(r[1].read_profile), civ(r[1].gene_profile_range))
        cases.append(("((((((%d,%d), %s), %s), %s), %s), %s)" % (minov, d, civs(K), civs(R), cz(pa), cz(pt), out),
                      {"min_overlap": minov, "delta": d, "known": K, "read": R, "polya": pa, "polyt": pt, "impl": (r[1].gene_profile, r[1].read_profile, r[1].gene_profile_range) if r[0] == "ok" else r}))
    ctx.rule("NonOverlappingFeaturesProfileConstructor.construct_profile: disjoint known lists (<=3) x read lists (<=2) over 7 positions (sampled) + random; non-trivial = a 1 in the gene profile")
    mism, viol = ctx.corr("nonoverlapping_profile", PRE_NOV, cases, shard=500, nontrivial=lambda o: isinstance(o["impl"], tuple) and len(o["impl"]) == 3 and 1 in o["impl"][0])
    ctx.corr_report("nonoverlapping_profile", mism, viol)

    # ---- 7. truncate_read_to_polya (dead code in the pipeline; known finding)
    def key_tr(o):
        l, pa, pt = o["exons"], o["polya"], o["polyt"]
        ga = pa == -1 or any(a < pa <= b for a, b in l); gt = pt == -1 or any(a <= pt < b for a, b in l); gc = pa == -1 or pt == -1 or pt <= pa
        return None if (ga and gt and gc) else "C19:truncate-dead-code"
    cases = []
    for l in sd_lists(6, 3):
        if not l: continue
        for pa in [-1] + list(range(1, 8)):
            for pt in [-1] + list(range(1, 8)):
                r = call(c.truncate_read_to_polya, list(l), pa, pt)
                cases.append(("(((%s, %s), %s), %s)" % (civs(l), cz(pa), cz(pt), cout(r, civs)), {"exons": l, "polya": pa, "polyt": pt, "impl": r}))
    if quick and len(cases) > 3000: cases = rnd.sample(cases, 3000)
    ctx.rule("truncate_read_to_polya: lists of <=3 exons over 6 positions x all polyA/polyT cut positions")
    mism, viol = ctx.corr("truncate_read_to_polya", PRE_TRUNC, cases, shard=600)
    ctx.corr_report("truncate_read_to_polya", mism, viol, keyfn=key_tr)
    for name, a in HANGS[:5]:
        ctx.violation(None, "%s does not terminate within 3 s" % name, {"function": name, "arguments": a})
    ctx.assume.append("CPython list/tuple/int semantics; floats compared bit-exactly through PrimFloat (kernel primitive floats)")
