"""C10 — experiments processed in one invocation are independent of each other; combined_* tables are the per-experiment columns."""
import os, sys, shutil, tempfile, types, json, gzip, re, itertools, copy, io, contextlib, logging, traceback
from decimal import Decimal
from concurrent.futures import ThreadPoolExecutor
from lib import *

PRE = "From IQ Require Import GroupedGroupers Orchestration OrchestrationInput OrchestrationCheck.\nOpen Scope Z_scope.\n"
HERE = os.path.dirname(os.path.abspath(__file__))
SEED_WRAPPER = os.path.join(HERE, "c10_seed.py")


def cs(s): return "[" + "; ".join("%d" % ord(c) for c in s) + "]"
def cos(s): return "None" if s is None else "(Some %s)" % cs(s)
def css(l): return clist(l, cs)


# ====================================================================================================== input descriptions
def quiet():
    lg = logging.getLogger("IsoQuant"); lg.disabled = True


def real_parse(kind, path, prefix):
    """the real InputDataStorage on a list file / YAML file; returns a Coq outcome term and a JSON-able description"""
    from src.input_data_storage import InputDataStorage
    args = types.SimpleNamespace(fastq=None, bam=None, fastq_list=None, bam_list=None, read_assignments=None, yaml=None, illumina_bam=None, labels=None, prefix=prefix, output="/out")
    setattr(args, kind, path)
    try:
        with contextlib.redirect_stdout(io.StringIO()):
            ids = InputDataStorage(args)
    except SystemExit as e:
        k = {-1: 1, -2: 2}.get(e.code, 9); return "(Raises %d)" % k, {"raises": "exit(%s)" % e.code}
    except IndexError:
        return "(Raises 4)", {"raises": "IndexError"}
    except Exception as e:
        return "(Raises 3)", {"raises": "%s: %s" % (type(e).__name__, str(e)[:80])}
    out = []; desc = []
    for s in ids.samples:
        labels = list(s.readable_names_dict.items())
        out.append("(mks %s %s %s %s)" % (cs(s.prefix), clist(s.file_list, css), clist(labels, lambda p: "(%s, %s)" % (cs(p[0]), cs(p[1]))),
                                         "None" if s.illumina_bam is None else "(Some %s)" % css(s.illumina_bam)))
        desc.append(dict(name=s.prefix, files=s.file_list, labels=labels, illumina=s.illumina_bam))
    return "(Ok %s)" % clist(out), {"samples": desc}


FILE_POOL = ["a.bam", "dir/b.sorted.bam", "/abs/c.bam", "x1.bam", "x2.bam", "reads.10.bam", "e.bam.gz", "lib.B.bam"]
BAD_FILES = ["d.BAM", "f.fastq", "noext", ".bam", "g.fq.gz", "h.bam.zip", "i.txt"]
NAME_POOL = ["A", "B", "ctrl", "A", "P1", "P2", "P0", "x y", "s"]


def gen_list_blocks(rnd, malformed):
    """blocks of lines; every block but possibly the first starts with a separator line (blank / '#name')"""
    blocks = []
    for b in range(rnd.randint(1, 4)):
        lines = []
        if b > 0 or rnd.random() < .7:
            x = rnd.random()
            if x < .55: lines.append("#" + rnd.choice(NAME_POOL))
            elif x < .7: lines.append("")
            elif x < .8: lines.append("   ")
            elif x < .9: lines.append("# " + rnd.choice(NAME_POOL) + " ")
            else: lines.append("#")
            if rnd.random() < .1: lines.append(rnd.choice(["", "#" + rnd.choice(NAME_POOL)]))       # a second separator: the first one names nothing
        for _ in range(rnd.choice([0, 1, 1, 2, 3]) if b > 0 or lines else rnd.choice([1, 2])):
            pool = FILE_POOL + (BAD_FILES if malformed else [])
            fs = [rnd.choice(pool) for _ in range(rnd.choice([1, 1, 1, 2]))]
            l = rnd.choice(["", " ", "\t"]) + rnd.choice([" ", "  ", "\t"]).join(fs)
            if rnd.random() < .4: l += ":" + rnd.choice(["lab", "rep1", "a b", "", "x:y"])
            if malformed and rnd.random() < .05: l = ":only_label"
            if malformed and rnd.random() < .05: l = " #not_a_header.bam"
            lines.append(l + rnd.choice(["", " "]))
        blocks.append([l + "\n" for l in lines])
    if rnd.random() < .2 and blocks[-1]: blocks[-1][-1] = blocks[-1][-1].rstrip("\n")             # no newline at end of file
    return [b for b in blocks if b]


LIST_CORPUS = [("P", [["#P2\n", "a.bam\n"], ["#A\n", "x1.bam\n"], ["#A\n", "x2.bam\n"]]),                 # the duplicate A is renamed P2, which is taken
               ("P", [["#P1\n", "a.bam\n"], ["\n", "x1.bam\n"]]),                                         # the unnamed second experiment is P1 as well
               ("P", [["#A\n", "a.bam\n"], ["#A\n", "x1.bam\n"], ["#P1\n", "x2.bam\n"]])]


def strict_names_variant():
    """True when a duplicate experiment name whose replacement is taken as well is refused (fixes/C10_renamed_name_clash.diff)"""
    d = tempfile.mkdtemp(prefix="iqv_c10v_")
    try:
        p = os.path.join(d, "l.txt"); open(p, "w").write("".join(l for b in LIST_CORPUS[0][1] for l in b))
        return real_parse("bam_list", p, "P")[0] == "(Raises 1)"
    finally:
        shutil.rmtree(d, ignore_errors=True)


def name_clash_key(o):
    """two parsed experiments carry the same name, and it is a default name <prefix><index> (given to a duplicate or unnamed experiment)"""
    names = [x["name"] for x in o["whole"].get("samples", [])]
    dup = set(n for n in names if names.count(n) > 1)
    return "C10:renamed-experiment-name-taken" if dup and all(re.fullmatch(re.escape(o["prefix"]) + r"\d+", n) for n in dup) else None


def input_lists(ctx, quick):
    quiet(); rnd = ctx.rnd; cases = []; work = tempfile.mkdtemp(prefix="iqv_c10i_")
    try:
        n = 500 if quick else 5000
        for i in range(n):
            malformed = i % 4 == 3
            blocks = gen_list_blocks(rnd, malformed); prefix = rnd.choice(["P", "OUT", "A"])
            if i < len(LIST_CORPUS): prefix, blocks = LIST_CORPUS[i]; malformed = False
            def parse(lines, tag):
                p = os.path.join(work, "l%d_%s.txt" % (i, tag)); open(p, "w").write("".join(lines))
                r = real_parse("bam_list", p, prefix); os.remove(p); return r
            whole, wd = parse([l for b in blocks for l in b], "w")
            alone = [parse(b, "b%d" % k) for k, b in enumerate(blocks)]
            cases.append(("(%s, %s, %s, %s)" % (cs(prefix), clist(blocks, css), whole, clist([a[0] for a in alone])),
                          {"prefix": prefix, "blocks": blocks, "whole": wd, "alone": [a[1] for a in alone], "malformed": malformed}))
    finally:
        shutil.rmtree(work, ignore_errors=True)
    strict = strict_names_variant()
    ctx.notes.append("experiment names: the checked-out code behaves like the %s model" % ("repaired (a taken replacement name is refused)" if strict else "current (the replacement name of a duplicate is not checked)"))
    pre = PRE + "Definition check := check_list %s.\nDefinition prop := prop_list.\n" % cbool(strict)
    mism, viol = ctx.corr("input_list_file", pre, cases, shard=100, nontrivial=lambda o: "samples" in o["whole"] and len(o["whole"]["samples"]) > 1, ctype="listcase")
    ctx.corr_report("input_list_file", mism, viol, keyfn=name_clash_key, what="InputDataStorage.get_samples_from_file: an experiment's files / labels depend on the other experiments of the list file, or two experiments share a name")
    ctx.rule("list files: 1-4 blocks, each introduced by '#name' / '# name ' / '#' / blank / whitespace-only lines (sometimes two), names from a pool with repeats and with the "
             "default names P0..P2 (duplicate renaming, the exit(-1) clash), 0-3 file lines with 1-2 files, padded, optional ':label' (also empty and with a second colon), "
             "missing final newline; every fourth file from a malformed stream (wrong / upper-case / archive extensions, label-only lines, an indented '#'); the real InputDataStorage "
             "on the whole file and on every block alone; non-trivial = more than one experiment parsed. %d files" % n)


def gen_yaml_entries(rnd, malformed):
    es = []
    for k in range(rnd.randint(1, 4)):
        e = {}
        if rnd.random() < .7: e["name"] = rnd.choice(NAME_POOL)
        pool = FILE_POOL + (BAD_FILES if malformed and rnd.random() < .3 else [])
        fs = [rnd.choice(pool) for _ in range(rnd.choice([0, 1, 1, 2, 3]) if malformed else rnd.choice([1, 1, 2, 3]))]
        if not (malformed and rnd.random() < .1): e["long read files"] = fs
        if rnd.random() < .4: e["labels"] = ["L%d" % j for j in range(len(fs) + (1 if malformed and rnd.random() < .2 else 0))]
        if rnd.random() < .3: e["illumina bam"] = [rnd.choice(["/abs/short.bam", "sr/ill.bam"])]
        es.append(e)
    return es


def input_yaml(ctx, quick):
    import yaml
    quiet(); rnd = ctx.rnd; cases = []; work = tempfile.mkdtemp(prefix="iqv_c10y_")
    try:
        n = 400 if quick else 4000
        for i in range(n):
            malformed = i % 4 == 3
            es = gen_yaml_entries(rnd, malformed); prefix = rnd.choice(["P", "OUT"])
            fmt = rnd.choice(["bam"] * 6 + ["fastq", "fasta"] + (["sam", None] if malformed else []))
            if i == 0: prefix, fmt, es = "P", "bam", [{"name": "P2", "long read files": ["a.bam"]}, {"name": "A", "long read files": ["x1.bam"]}, {"name": "A", "long read files": ["x2.bam"]}]
            if i == 1: prefix, fmt, es = "P", "bam", [{"name": "P1", "long read files": ["a.bam"]}, {"long read files": ["x1.bam"]}]
            head = {"data format": fmt} if fmt is not None else {"format": "bam"}
            def parse(entries, tag):
                p = os.path.join(work, "y%d_%s.yaml" % (i, tag))
                with open(p, "w") as f: yaml.safe_dump([head] + entries, f, default_flow_style=rnd.random() < .3)
                r = real_parse("yaml", p, prefix); os.remove(p); return r
            whole, wd = parse(es, "w"); alone = [parse([e], "e%d" % k) for k, e in enumerate(es)]
            def ce(e):
                return "(mky %s %s %s %s)" % (cos(e.get("name")), "None" if "long read files" not in e else "(Some %s)" % css(e["long read files"]),
                                             "None" if "labels" not in e else "(Some %s)" % css(e["labels"]), "None" if "illumina bam" not in e else "(Some %s)" % css(e["illumina bam"]))
            cfmt = "None" if fmt is None else "(Some %d)" % {"bam": 0, "fastq": 1, "fasta": 1}.get(fmt, 2)
            cases.append(("(%s, %s, %s, %s, %s, %s)" % (cs(prefix), cs(work), cfmt, clist(es, ce), whole, clist([a[0] for a in alone])),
                          {"prefix": prefix, "format": fmt, "entries": es, "whole": wd, "alone": [a[1] for a in alone], "malformed": malformed}))
    finally:
        shutil.rmtree(work, ignore_errors=True)
    pre = PRE + "Definition check := check_yaml %s.\nDefinition prop := prop_yaml.\n" % cbool(strict_names_variant())
    mism, viol = ctx.corr("input_yaml", pre, cases, shard=100, nontrivial=lambda o: "samples" in o["whole"] and len(o["whole"]["samples"]) > 1, ctype="yamlcase")
    ctx.corr_report("input_yaml", mism, viol, keyfn=name_clash_key, what="InputDataStorage.get_samples_from_yaml: an experiment's files / labels depend on the other experiments of the YAML file, or two experiments share a name")
    ctx.rule("YAML files written with yaml.safe_dump (block and flow style): 'data format' bam / fastq / fasta (malformed: sam, key missing), 1-4 experiments with / without name "
             "(pool with repeats and default names), 1-3 long-read files (relative, in sub-directories, absolute), labels (malformed: wrong count), illumina bam, malformed: no files "
             "key, empty file list, wrong extensions, a file twice; whole file and every experiment alone through the real InputDataStorage. %d files" % n)


# ====================================================================================================== combined tables
def dec6(s):
    d = Decimal(s) * 1000000
    if d != d.to_integral_value(): raise ValueError("more than 6 decimals: %s" % s)
    return int(d)


def read_table(path):
    """(header cells, rows [(feature, [cell strings])])"""
    rows = []; hdr = None
    for l in open(path):
        v = l.rstrip("\n").split("\t")
        if hdr is None: hdr = v; continue
        rows.append((v[0], v[1:]))
    return hdr, rows


def comb_case(full, labels, tables, comb_path, info):
    """tables: list of row lists [(feature, value string)] as in the individual files (incl. trailing statistics lines); comb_path: the combined file"""
    hdr, crows = read_table(comb_path)
    feats = sorted(set(f for t in tables for f, _ in t) | set(f for f, _ in crows))
    fi = {f: i + 1 for i, f in enumerate(feats)}
    li = {}
    for x in list(labels) + hdr[1:]: li.setdefault(x, len(li) + 1)
    ctabs = clist(tables, lambda t: clist(t, lambda r: "(%d, %s)" % (fi[r[0]], cz(dec6(r[1])))))
    ccomb = clist(crows, lambda r: "(%d, %s)" % (fi[r[0]], clist(r[1], lambda c: "None" if c == "" else "(Some %s)" % cz(dec6(c)))))
    term = "(%s, %s, %s, %s, %s)" % (cbool(full), czs([li[x] for x in hdr[1:]]), czs([li[x] for x in labels]), ctabs, ccomb)
    py = dict(info, full=full, labels=labels, header=hdr, combined_rows=crows[:40], tables=[t[:40] for t in tables])
    return term, py


def combine_unit(ctx, quick):
    from src.stats import combine_table
    rnd = ctx.rnd; cases = []; work = tempfile.mkdtemp(prefix="iqv_c10c_")
    # feature ids are unique within a table (a count table never lists a feature twice): the pool itself must be duplicate-free, rnd.sample then draws distinct ids
    pool = list(dict.fromkeys(["ENSG%05d.%d" % (rnd.randint(1, 300), rnd.randint(1, 9)) for _ in range(25)] + ["geneA", "GeneA", "gene10", "gene9", "_x", "10", "9", "Zfp", "a-b", "novel_gene_chr1_3"]))
    try:
        n = 250 if quick else 2500
        for i in range(n):
            full = i % 2 == 1; k = rnd.randint(2, 4); labels = ["E%d" % j for j in range(k)]
            if rnd.random() < .2: labels = rnd.sample(["ctrl", "KO", "b", "a", "10"], k)
            col = "TPM" if full else "count"; tables = []; paths = []
            base = rnd.sample(pool, rnd.randint(0, 8))
            for j in range(k):
                feats = list(base) if rnd.random() < .5 else rnd.sample(pool, rnd.randint(0, 8))
                rnd.shuffle(feats)
                fmt = "%.6f" if full else "%.2f"
                assert len(set(feats)) == len(feats) and len(set(labels)) == len(labels)
                rows = [(f, fmt % rnd.choice([0, 1, 2.5, rnd.random() * 1000, rnd.randint(0, 10 ** 6), 1e6 / 3])) for f in feats]
                rows += [("__unassigned", "%.6f" % rnd.random())] if full else [("__ambiguous", "%d" % rnd.randint(0, 9)), ("__no_feature", "%d" % rnd.randint(0, 9)), ("__not_aligned", "0")]
                p = os.path.join(work, "t%d_%d.tsv" % (i, j))
                open(p, "w").write("#feature_id\t%s\n" % col + "".join("%s\t%s\n" % r for r in rows))
                tables.append(rows); paths.append(p)
            inp = types.SimpleNamespace(samples=[types.SimpleNamespace(prefix=l, f=p) for l, p in zip(labels, paths)])
            try:
                combine_table(inp, work, lambda s: s.f, "comb%d.tsv" % i, column_name=col, full=full)
            except Exception as e:
                ctx.violation(None, "combine_table raises %s" % type(e).__name__, {"labels": labels, "tables": tables, "error": repr(e)[:300]}); continue
            cases.append(comb_case(full, labels, tables, os.path.join(work, "comb%d.tsv" % i), {"unit": True}))
            for p in paths + [os.path.join(work, "comb%d.tsv" % i)]: os.remove(p)
    finally:
        shutil.rmtree(work, ignore_errors=True)
    pre = PRE + "Definition check := check_comb.\nDefinition prop := prop_comb.\n"
    mism, viol = ctx.corr("combine_table", pre, cases, shard=60, nontrivial=lambda o: len(o["labels"]) > 1 and len(o["combined_rows"]) > 0, ctype="combcase")
    ctx.corr_report("combine_table", mism, viol, keyfn=lambda o: None, what="combined table is not the per-experiment columns")
    ctx.rule("combine_table (real pandas merge; run_pipeline calls it only for two or more experiments) on 2-4 generated count (2 decimals, three trailing statistics lines, full=False) and TPM (6 decimals, __unassigned line, full=True) "
             "tables over a pool of feature ids (mixed case, digits, leading underscore), shared / disjoint / empty feature sets, shuffled row order; values compared as exact decimals "
             "scaled by 10^6; model = rows in sorted feature order; specification combined_ok in Coq; non-trivial = at least two experiments and one row. %d cases" % n)


# ====================================================================================================== process_sample: the flags (unit probe on the real method)
_REAL_ARGS = {}
def real_args(read_group, nfiles):
    """the args object exactly as run_pipeline receives it: isoquant.py's own parse_args -> check_and_load_args -> create_output_dirs -> set_additional_params
       on a real command line (--bam_list describing one experiment per entry of nfiles, each with that many (sym-linked) bundled BAM files).  Returns a fresh deep copy."""
    key = (read_group, tuple(nfiles))
    if key not in _REAL_ARGS:
        import isoquant as IQ
        d = tempfile.mkdtemp(prefix="iqv_c10a_"); src = os.path.join(REPO, "tests", "simple_data"); bam = os.path.join(src, "chr9.4M.ont.sim.polya.bam")
        lst = os.path.join(d, "experiments.txt")
        with open(lst, "w") as f:
            for i, n in enumerate(nfiles):
                f.write("#E%d\n" % i)
                for k in range(n):
                    link = os.path.join(d, "e%d_f%d.bam" % (i, k)); os.symlink(bam, link); os.symlink(bam + ".bai", link + ".bai"); f.write(link + "\n")
        cmd = ["--bam_list", lst, "--reference", os.path.join(src, "chr9.4M.fa.gz"), "--genedb", os.path.join(src, "chr9.4M.gtf.gz"), "--complete_genedb", "--data_type", "nanopore",
               "-o", os.path.join(d, "out")] + (["--read_group", read_group] if read_group else [])
        home = os.path.join(d, "home"); os.makedirs(home); old_home = os.environ.get("HOME"); old_argv = sys.argv
        os.environ["HOME"] = home; sys.argv = ["isoquant.py"] + cmd
        try:
            with contextlib.redirect_stdout(io.StringIO()):
                args, parser = IQ.parse_args(cmd); args = IQ.check_and_load_args(args, parser); IQ.create_output_dirs(args); IQ.set_additional_params(args)
        finally:
            sys.argv = old_argv
            if old_home is None: os.environ.pop("HOME", None)
            else: os.environ["HOME"] = old_home
        _REAL_ARGS[key] = (args, d)
    return copy.deepcopy(_REAL_ARGS[key][0])


def drop_real_args():
    for _, d in _REAL_ARGS.values(): shutil.rmtree(d, ignore_errors=True)
    _REAL_ARGS.clear()


def flags_probe(dmi, dme, strategy, seq, read_group=None):
    """the real DatasetProcessor.process_sample on the real SampleData objects of a real args object (see real_args), with collect_reads / load_read_info /
       process_assigned_reads replaced by stubs; seq = [(total assignments, with polyA, number of files)].  Returns (read_group == "file_name" as the run has it,
       per experiment (requires_polya_for_construction, require_monointronic_polya, require_monoexonic_polya, use_technical_replicas) as seen by process_assigned_reads)"""
    from src import dataset_processor as DP
    args = real_args(read_group, [x[2] for x in seq])
    # overrides: no annotation / reference loading in DatasetProcessor.__init__, the strategy under test, the strategy defaults under test
    args.genedb = None; args.needs_reference = False; args.keep_tmp = True
    args.polya_requirement_strategy = DP.PolyAUsageStrategies[strategy]; args.require_monointronic_polya = dmi; args.require_monoexonic_polya = dme
    rgfn = args.read_group == "file_name"
    dp = DP.DatasetProcessor(args); obs = []; cur = {}
    orig = DP.prepare_read_groups; DP.prepare_read_groups = lambda a, s: None
    dp.collect_reads = lambda sample: None
    dp.load_read_info = lambda f: (cur["total"], cur["polya"], set())
    dp.process_assigned_reads = lambda sample, f: obs.append((bool(args.requires_polya_for_construction), bool(args.require_monointronic_polya), bool(args.require_monoexonic_polya),
                                                              bool(args.use_technical_replicas)))
    try:
        assert len(args.input_data.samples) == len(seq)
        for sample, (total, polya, n) in zip(args.input_data.samples, seq):
            assert len(sample.file_list) == n
            cur["total"] = total; cur["polya"] = polya
            dp.process_sample(sample)
    finally:
        DP.prepare_read_groups = orig
    return rgfn, obs


def sticky_key(observed, alone):
    """the signature of the sticky `or`: the multi-exon requirement of every experiment is its own, and a 2-exon / mono-exon flag differs from the stand-alone value only by
       being on where an earlier experiment of the sequence had it on"""
    for k, (o, a) in enumerate(zip(observed, alone)):
        if o is None or a is None or o[0] != a[0] or tuple(o[3:]) != tuple(a[3:]): return None
        for i in (1, 2):
            if o[i] != a[i] and not (o[i] and not a[i] and any(p[i] for p in observed[:k])): return None
    return "C10:sticky-polya-flags"


def flags_variant():
    """True when the checked-out process_sample derives the flags from the strategy defaults (fixes/C10_sticky_flags.diff), False when they are sticky"""
    return flags_probe(False, False, "auto", [(100, 90, 1), (100, 20, 1)])[1][1][:3] == (False, False, False)


def flags_unit(ctx, quick):
    quiet(); cases = []
    fr = {True: [(100, 90), (10, 7), (1000, 700)], False: [(100, 20), (0, 0), (1000, 699), (7, 0)]}
    plan = []; k = 0
    for dmi, dme in itertools.product((False, True), repeat=2):
        for st in ("auto", "never", "always"):
            for n in (1, 2, 3, 4):
                for highs in itertools.product((True, False), repeat=n):
                    seq = [fr[h][(k + j) % len(fr[h])] + ((1, 2, 1, 3)[(k + j) % 4],) for j, h in enumerate(highs)]; k += 1
                    plan.append((dmi, dme, st, (None, "file_name", "tag:RG")[k % 3], list(highs), seq))
    # use_technical_replicas: every sequence of 1-3 experiments with one / two / three files x the three ways reads can be grouped
    for rg in (None, "file_name", "tag:RG"):
        for n in (1, 2, 3):
            for nf in itertools.product((1, 2, 3), repeat=n):
                plan.append((True, True, "auto", rg, [False] * n, [(100, 20, x) for x in nf]))
    try:
        for dmi, dme, st, rg, highs, seq in plan:
            rep = {"strategy defaults (2-exon, mono-exon)": [dmi, dme], "polya_requirement": st, "--read_group": rg, "experiments (total assignments, with polyA, files)": seq}
            try:
                rgfn, obs = flags_probe(dmi, dme, st, seq, rg)
                alone = [flags_probe(dmi, dme, st, [x], rg)[1][0] for x in seq] if len(seq) > 1 else list(obs)
            except Exception as e:
                ctx.violation(None, "process_sample raises %s" % type(e).__name__, dict(rep, error=traceback.format_exc()[-1200:])); continue
            si = ("auto", "never", "always").index(st)
            cases.append(("(%s, %s, %d, %s, %s, %s)" % (cbool(dmi), cbool(dme), si, cbool(rgfn), clist(zip(highs, seq), lambda x: "(%s, %d)" % (cbool(x[0]), x[1][2])),
                                                       clist(obs, lambda o: "(%s, %s, %s, %s)" % tuple(map(cbool, o)))),
                          dict(rep, **{"read_group == file_name in the run": rgfn, "observed flags (multi-exon, 2-exon, mono-exon, use_technical_replicas)": obs, "stand-alone flags": alone})))
        vf = flags_variant()
    finally:
        drop_real_args()
    ctx.notes.append("process_sample flags: the checked-out code behaves like the %s model" % ("repaired" if vf else "current (sticky or)"))
    pre = PRE + "Definition check := check_flags %s.\nDefinition prop := prop_flags.\n" % cbool(vf)
    OBS = "observed flags (multi-exon, 2-exon, mono-exon, use_technical_replicas)"
    mism, viol = ctx.corr("process_sample_flags", pre, cases, shard=200, nontrivial=lambda o: len(o[OBS]) > 1, ctype="flagcase")
    ctx.corr_report("process_sample_flags", mism, viol, keyfn=lambda o: sticky_key(o[OBS], o["stand-alone flags"]),
                    what="DatasetProcessor.process_sample: polyA requirement flags / the technical-replica flag of an experiment depend on the experiments processed before it")
    ctx.rule("process_sample flags: the real DatasetProcessor.process_sample on the real SampleData objects and the real args object (isoquant.py's parse_args, check_and_load_args, "
             "create_output_dirs, set_additional_params on a --bam_list command line; only genedb / reference loading switched off and the strategy under test set), with reading / model "
             "construction stubbed: all sequences of 1-4 experiments with polyA fraction above / below the 0.7 threshold (incl. exactly 0.7, 0.699, zero assignments) x polya_requirement "
             "auto/never/always x the four (2-exon, mono-exon) strategy defaults, 1-3 files per experiment, reads grouped by nothing / file_name / a tag; all sequences of 1-3 experiments "
             "with 1/2/3 files x the three groupings; %d sequences (exhaustive); the flags incl. use_technical_replicas seen by process_assigned_reads compared with the model and with "
             "a stand-alone run; non-trivial = at least two experiments" % len(cases))
    ctx.exhaustive = dict(domain="sequences of <= 4 experiments over {polyA high, low} x 3 polyA strategies x 4 default pairs; sequences of <= 3 experiments over {1,2,3 files} x 3 groupings", size=len(cases))


# ====================================================================================================== whole runs
def snap(d):
    """final files of one experiment directory: name -> text (decompressed) without the command-line header line"""
    out = {}
    for f in sorted(os.listdir(d)):
        p = os.path.join(d, f)
        if not os.path.isfile(p): continue
        data = gzip.open(p, "rt").read() if f.endswith(".gz") else open(p, errors="replace").read()
        out[f] = "".join(l for l in data.splitlines(True) if not l.startswith("# Command line:"))
    return out


def diff_files(A, B):
    """[(file, description)] for two snapshots"""
    res = []
    for f in sorted(set(A) | set(B)):
        if f not in A: res.append((f, "only in the second run")); continue
        if f not in B: res.append((f, "only in the first (stand-alone / clean) run")); continue
        if A[f] != B[f]:
            la, lb = A[f].splitlines(), B[f].splitlines()
            k = next((i for i in range(min(len(la), len(lb))) if la[i] != lb[i]), min(len(la), len(lb)))
            res.append((f, "%d vs %d lines; first difference at line %d: %r | %r" % (len(la), len(lb), k + 1, la[k][:160] if k < len(la) else None, lb[k][:160] if k < len(lb) else None)))
    return res


def write_bam(w, reads, path, unmapped=0):
    import pysam
    names = list(w.chroms); hdr = {"HD": {"VN": "1.6", "SO": "unsorted"}, "SQ": [{"SN": c, "LN": len(w.chroms[c])} for c in names]}
    u = path + ".u.bam"
    with pysam.AlignmentFile(u, "wb", header=hdr) as out:
        for r in reads:
            a = pysam.AlignedSegment(); a.query_name = r["name"]; a.flag = r["flag"]; a.reference_id = names.index(r["chr"]); a.reference_start = r["start"]
            a.cigartuples = r["cigar"]; a.query_sequence = r["seq"]; a.mapping_quality = r["mapq"]
            for t, v in r["tags"].items(): a.set_tag(t, v)
            out.write(a)
        for i in range(unmapped):
            a = pysam.AlignedSegment(); a.query_name = "unmapped_%d" % i; a.flag = 4; a.reference_id = -1; a.reference_start = -1; a.query_sequence = "ACGTTGCA" * 10; a.mapping_quality = 0
            out.write(a)
    pysam.sort("-o", path, u); pysam.index(path); os.remove(u)


def index_fasta(path):
    """build <path>.fai once, before runs that share the reference start concurrently (IsoQuant lets pyfaidx build it on first use, next to the reference)"""
    import pyfaidx
    pyfaidx.Faidx(path); return path


def plain_fasta(gz_path):
    """uncompressed, indexed copy of a gzipped reference: with a .gz reference every run writes its own uncompressed copy and rebuilds the shared <ref>.gz.fai,
       which concurrent runs then read half-written (KeyError 'chr9 not in ...'; a matter of C20, not of this property)"""
    out = gz_path[:-3]
    with gzip.open(gz_path, "rt") as f, open(out, "w") as g: shutil.copyfileobj(f, g)
    return index_fasta(out)


def strip_polya(r):
    r = copy.deepcopy(r); cig = r["cigar"]; seq = r["seq"]
    if cig[0][0] == 4: seq = seq[cig[0][1]:]; cig = cig[1:]
    if cig[-1][0] == 4: seq = seq[:-cig[-1][1]]; cig = cig[:-1]
    r["cigar"] = cig; r["seq"] = seq; return r


def unmapped_of(paths):
    import pysam
    return sum(pysam.AlignmentFile(p, "rb").unmapped for p in paths)


def describe(path, fmt, exps):
    """write the list file / YAML file describing the experiments [(name, [files], labels or None)]"""
    if fmt == "list":
        with open(path, "w") as f:
            for name, files, labels in exps:
                f.write("#%s\n" % name)
                for k, x in enumerate(files): f.write(x + (":%s" % labels[k] if labels else "") + "\n")
    else:
        import yaml
        doc = [{"data format": "bam"}]
        for name, files, labels in exps:
            e = {"name": name, "long read files": list(files)}
            if labels: e["labels"] = list(labels)
            doc.append(e)
        with open(path, "w") as f: yaml.safe_dump(doc, f, default_flow_style=False)


def log_flags(log_text):
    """per experiment, in processing order: (name, (requires, 2-exon, mono-exon) or None)"""
    out = []; cur = None
    for l in log_text.splitlines():
        m = re.search(r"Processing experiment (\S+)", l)
        if m: cur = [m.group(1), {}]; out.append(cur); continue
        if cur is None: continue
        for key, pat in (("req", "required for multi-exon transcripts to be reported: (yes|no)"), ("mi", "required for 2-exon transcripts to be reported: (yes|no)"),
                         ("me", "required for known monoexon transcripts to be reported: (yes|no)")):
            m = re.search(pat, l)
            if m: cur[1][key] = m.group(1) == "yes"
    return [(n, (d["req"], d["mi"], d["me"]) if len(d) == 3 else None) for n, d in out]


def not_aligned_of(exp_dir, name):
    for l in open(os.path.join(exp_dir, name + ".gene_counts.tsv")):
        if l.startswith("__not_aligned"): return int(l.split("\t")[1])
    return None


def known_by_chr(exp_dir, name, ref_ids, chroms):
    import pipeline as P
    p = os.path.join(exp_dir, name + ".transcript_models.gtf")
    if not os.path.exists(p): return [[] for _ in chroms]
    tr, _ = P.read_gtf(p)
    return [sorted(t for t, d in tr.items() if d["chr"] == c and t in ref_ids) for c in chroms]


MODEL_FILES = ("transcript_model", "extended_annotation", "novel_vs_known")
def without_na(text): return "".join(l for l in text.splitlines(True) if not l.startswith("__not_aligned"))


def pipeline(ctx, quick):
    import pipeline as P, gen_data
    root = P.scratch("iqv_c10p_")
    try:
        # ------------------------------------------------ data: a generated three-chromosome world with four read sets, and the bundled chr9 data with a subset
        wd = os.path.join(root, "w"); w = gen_data.World(11 if quick else 11 + 100 * ctx.seed, n_chr=3, genes_per_chr=(3, 5)); w.reads_from_annotation(per_isoform=5); w.novel_reads()
        reads = w.reads; w.reads = []; w.write(wd, n_bams=0); index_fasta(os.path.join(wd, "genome.fa"))
        wf = {k: os.path.join(wd, k + ".bam") for k in ("H", "L", "U", "H2", "R1", "R2", "V")}
        write_bam(w, reads, wf["H"]); write_bam(w, [strip_polya(r) for r in reads], wf["L"]); write_bam(w, reads[::2], wf["U"], unmapped=7); write_bam(w, reads, wf["H2"])
        # V = the reads U does not have; one read -> group table covers the reads of both (reads without an RG tag are not listed: group NA)
        write_bam(w, reads[1::2], wf["V"]); wtable = os.path.join(wd, "groups.tsv")
        with open(wtable, "w") as f:
            for r in reads:
                if r["tags"].get("RG"): f.write("%s\t%s\n" % (r["name"], r["tags"]["RG"]))
        # technical replicas: the reads of H in two files; the unannotated exon-skipping reads of every second gene all in the first file (the replica filter suppresses that novel
        # transcript), those of the other genes alternate between the files
        ngenes = sorted(set(r["name"].split("_")[1] + "_" + r["name"].split("_")[2] for r in reads if r["name"].startswith("novel_")))
        def replica_of(k, r):
            if r["name"].startswith("novel_"):
                g = r["name"].split("_")[1] + "_" + r["name"].split("_")[2]
                return 0 if ngenes.index(g) % 2 == 0 else k % 2
            return k % 2
        write_bam(w, [r for k, r in enumerate(reads) if replica_of(k, r) == 0], wf["R1"]); write_bam(w, [r for k, r in enumerate(reads) if replica_of(k, r) == 1], wf["R2"])
        wcommon = ["--reference", os.path.join(wd, "genome.fa"), "--genedb", os.path.join(wd, "annotation.gtf"), "--complete_genedb", "--data_type", "nanopore"]
        wref, _ = P.read_gtf(os.path.join(wd, "annotation.gtf")); wchroms = list(w.chroms)
        bd = os.path.join(root, "b"); b = P.bundled(bd); b["fasta"] = plain_fasta(b["fasta"])
        from props.c02_common import rewrite_bam
        bsub = os.path.join(bd, "half.bam"); rewrite_bam(b["bam"], [bsub], lambda a, i: (0 if i % 2 == 0 else None, a))
        bcommon = ["--reference", b["fasta"], "--genedb", b["gtf"], "--complete_genedb", "--data_type", "nanopore"]
        bref, _ = P.read_gtf(b["gtf"]); bchroms = ["chr9"]
        EXP = {"EH": ([wf["H"]], None), "EL": ([wf["L"]], None), "EU": ([wf["U"]], None), "EI": ([wf["H2"]], None), "ER": ([wf["H"], wf["L"]], ["repA", "repB"]), "ET": ([wf["R1"], wf["R2"]], None), "EV": ([wf["V"]], None),
               "EB": ([b["bam"]], None), "EC": ([bsub], None)}
        OPT = {"sens": ["--model_construction_strategy", "sensitive_ont"], "dflt": [], "rich": ["--count_exons", "--read_group", "tag:RG", "--sqanti_output", "--check_canonical"],
               "brich": ["--count_exons", "--sqanti_output", "--check_canonical", "--read_group", "file:%s:0:1" % b["groups"]],
               "fname": ["--read_group", "file_name"], "ftab": ["--read_group", "file:%s:0:1" % wtable, "--count_exons"],
               "ridg": ["--read_group", "read_id:_", "--count_exons"]}
        DEFAULTS = {"sens": (False, False), "dflt": (True, True), "rich": (True, True), "brich": (True, True), "fname": (True, True), "ftab": (True, True), "ridg": (True, True)}
        plan = [(["EH", "EL"], "list", "sens"), (["EL", "EH"], "yaml", "sens"), (["EU", "EH", "EL"], "list", "dflt"), (["EH", "EU"], "yaml", "rich"), (["EH", "EI"], "list", "dflt"),
                (["EB", "EC"], "list", "brich"), (["EC", "EB"], "yaml", "brich"),
                # a one-file experiment before / after an experiment with technical replicas, reads grouped by file name (args.use_technical_replicas is derived per experiment)
                (["EU", "ET"], "list", "fname"), (["ET", "EU"], "yaml", "fname"),
                # two experiments with DIFFERENT reads grouped through ONE read -> group table (a per-process cache of table parts must be keyed by the experiment)
                (["EU", "EV"], "list", "ftab"), (["EV", "EU"], "yaml", "ftab")]
        if not quick: plan += [(["EL", "EU", "EH"], "yaml", "sens"), (["EI", "EH", "EU"], "list", "rich"), (["EC", "EB", "EC2"], "list", "dflt")]
        EXP["EC2"] = ([bsub], None)
        intense = bool(getattr(ctx, "new_sites", {}).get("state"))
        threads_set = (1, 2, 3) if intense else (1, 3)
        if intense:
            # option sets that exercise the files in which the unreviewed state sites are, on the two experiments with disjoint reads
            FILE_OPTS = {"src/read_groups.py": ["rich", "ridg", "fname"], "src/assignment_io.py": ["rich"], "src/long_read_counter.py": ["rich", "ridg"],
                         "src/graph_based_model_construction.py": ["sens"], "src/intron_graph.py": ["sens"], "isoquant.py": ["sens", "rich"]}
            for f in sorted(set(e["file"] for e in ctx.new_sites.get("state", []))):
                for o in FILE_OPTS.get(f, ["sens", "rich"]):
                    if not any(s2 == ["EU", "EV"] and o2 == o for s2, _, o2 in plan): plan.append((["EU", "EV"], "list", o))
            # an unreviewed piece of process-wide state: every sequence also in the opposite order, one more thread count
            plan += [(seq[::-1], fmt, opt) for seq, fmt, opt in list(plan) if not any(s2 == seq[::-1] and o2 == opt for s2, _, o2 in plan)]
            ctx.notes.append("whole runs intensified because of unreviewed state sites: every sequence in both orders, threads 1 / 2 / 3")
        jobs = []; alone = {}
        def common_of(name): return bcommon if name in ("EB", "EC", "EC2") else wcommon
        for k, (seq, fmt, opt) in enumerate(plan):
            for t in threads_set:
                d = os.path.join(root, "m%d_t%d" % (k, t)); os.makedirs(d)
                desc = os.path.join(d, "experiments." + ("txt" if fmt == "list" else "yaml")); describe(desc, fmt, [(n,) + EXP[n] for n in seq])
                jobs.append(dict(kind="multi", seq=seq, fmt=fmt, opt=opt, threads=t, out=os.path.join(d, "out"), desc=desc,
                                 args=[("--bam_list" if fmt == "list" else "--yaml"), desc, "--threads", str(t)] + common_of(seq[0]) + OPT[opt]))
            for n in seq: alone.setdefault((n, opt), None)
        # the corpus case for the replica switch: one experiment with two files makes every experiment of the invocation a grouped one
        d = os.path.join(root, "rep"); os.makedirs(d); desc = os.path.join(d, "experiments.yaml"); describe(desc, "yaml", [("ER",) + EXP["ER"], ("EU",) + EXP["EU"]])
        jobs.append(dict(kind="multi", seq=["ER", "EU"], fmt="yaml", opt="dflt", threads=3, out=os.path.join(d, "out"), desc=desc, replicas=True,
                         args=["--yaml", desc, "--threads", "3"] + wcommon))
        alone.setdefault(("ER", "dflt"), None); alone.setdefault(("EU", "dflt"), None)
        for (n, opt) in alone:
            d = os.path.join(root, "a_%s_%s" % (n, opt)); files, labels = EXP[n]
            j = dict(kind="alone", name=n, opt=opt, out=os.path.join(d, "out"), threads=1,
                     args=["--bam"] + files + (["--labels"] + labels if labels else []) + ["-p", n, "--threads", "1"] + common_of(n) + OPT[opt])
            os.makedirs(d); jobs.append(j); alone[(n, opt)] = j
        # pre-seeded class-level state (frame condition): foreign state must change nothing; a set holding this annotation's own isoforms is the leak itself
        seeds = []
        def seeded(tag, n, opt, t, seed):
            d = os.path.join(root, "s_%s_t%d" % (tag, t)); os.makedirs(d); files, labels = EXP[n]
            j = dict(kind="seeded", tag=tag, name=n, opt=opt, threads=t, out=os.path.join(d, "out"), seed=seed, wrapper=SEED_WRAPPER, env={"C10_SEED": json.dumps(seed)},
                     args=["--bam"] + files + ["-p", n, "--threads", str(t)] + common_of(n) + OPT[opt])
            jobs.append(j); seeds.append(j)
        foreign = dict(detected=["ENST_FOREIGN.%d" % i for i in range(50)] + ["chrZ_G0.T0"], assignment_counter=123456, feature_counter=54321, duplicate_counter=9)
        for t in (1, 3):
            seeded("foreign", "EH", "rich", t, foreign); seeded("foreignB", "EB", "brich", t, foreign)
        def run(j):
            rc, log = P.run_isoquant(j["out"], j["args"], wrapper=j.get("wrapper"), env_extra=j.get("env"))
            j["rc"] = rc; j["log"] = log; return j
        with ThreadPoolExecutor(6) as ex: list(ex.map(run, jobs))
        # second wave: seeds that need the stand-alone result (half of the known isoforms the clean run reports)
        wave2 = []
        for n, opt, ref, chroms in (("EH", "rich", wref, wchroms), ("EB", "brich", bref, bchroms)):
            a = alone[(n, opt)]
            if a["rc"] != 0: continue
            kn = known_by_chr(os.path.join(a["out"], n), n, ref, chroms); own = [t for c in kn for t in c][::2]
            for t in (1, 3):
                before = len(jobs); seeded("own_" + n, n, opt, t, dict(detected=own)); wave2 += jobs[before:]
        with ThreadPoolExecutor(6) as ex: list(ex.map(run, wave2))
        ctx.cov["pipeline_runs"] += len(jobs)

        def rep(j, **kw):
            r = {"run": j["kind"], "threads": j["threads"], "options": [a.replace(root, "<scratch>") for a in OPT[j["opt"]]] if j["opt"] in OPT else j["opt"], "arguments": [a.replace(root, "<scratch>") for a in j["args"]]}
            if j["kind"] == "multi": r["experiments"] = j["seq"]; r["description file"] = open(j["desc"]).read().replace(root, "<scratch>")
            if intense: r["unreviewed state sites found by the static scan"] = [e["site"] for e in ctx.new_sites.get("state", [])]
            if j.get("seed"): r["seeded class-level state"] = {k: (v if not isinstance(v, list) else v[:6] + ["... %d ids" % len(v)]) for k, v in j["seed"].items()}
            r.update(kw); return r
        for j in jobs:
            if j["rc"] != 0:
                ctx.violation(None, "IsoQuant run failed (exit %d)" % j["rc"], rep(j, log=j["log"][-1500:]))
        snaps = {}
        def snap_of(j, n):
            k = (j["out"], n)
            if k not in snaps: snaps[k] = snap(os.path.join(j["out"], n))
            return snaps[k]

        # ------------------------------------------------ 1. every experiment of every multi-experiment run against its stand-alone run, byte for byte
        runcases = []; combcases = []; n_cmp = 0
        for j in jobs:
            if j["kind"] != "multi" or j["rc"] != 0: continue
            seq = j["seq"]; opt = j["opt"]; ref, chroms = (bref, bchroms) if seq[0] in ("EB", "EC", "EC2") else (wref, wchroms)
            if any(alone[(n, opt)]["rc"] != 0 for n in seq): continue
            mflags = dict(log_flags(open(os.path.join(j["out"], "isoquant.log")).read()))
            exps = []; obs = []; prev_known = set(); prev_unmapped = 0
            with_known = opt != "sens"
            for i, n in enumerate(seq):
                a = alone[(n, opt)]; adir = os.path.join(a["out"], n); mdir = os.path.join(j["out"], n)
                aflags = dict(log_flags(open(os.path.join(a["out"], "isoquant.log")).read()))[n]
                aknown = known_by_chr(adir, n, ref, chroms); mknown = known_by_chr(mdir, n, ref, chroms)
                unm = unmapped_of(EXP[n][0]); na = not_aligned_of(mdir, n)
                ids = {}
                def ii(t): return ids.setdefault(t, len(ids) + 1)
                exps.append((aflags[0], unm, aknown if with_known else [[] for _ in chroms])); obs.append((mflags.get(n), na, mknown if with_known else [[] for _ in chroms]))
                A, B = snap_of(a, n), snap_of(j, n); n_cmp += len(A)
                diffs = diff_files(A, B)
                causes = {}; unexplained = []
                for f, what in diffs:
                    if f in A and f in B and f.endswith("_counts.tsv") and without_na(A[f]) == without_na(B[f]):
                        if na == prev_unmapped + unm and prev_unmapped > 0: causes.setdefault("C10:unaligned-accumulates", []).append((f, what))
                        else: unexplained.append((f, what))
                    elif "grouped" in f and f not in A and j.get("replicas") and len(EXP[n][0]) == 1:
                        causes.setdefault("C10:replicas-group-all-experiments", []).append((f, what))
                    elif any(m in f for m in MODEL_FILES):
                        lost = set(t for c in aknown for t in c) - set(t for c in mknown for t in c)
                        if mflags.get(n) != aflags:
                            key = sticky_key([mflags.get(x) for x in seq[:i + 1]], [dict(log_flags(open(os.path.join(alone[(x, opt)]["out"], "isoquant.log")).read()))[x] for x in seq[:i + 1]])
                            if key: causes.setdefault(key, []).append((f, what))
                            else: unexplained.append((f, what))
                        elif j["threads"] == 1 and lost and lost <= prev_known: causes.setdefault("C10:detected-known-isoforms", []).append((f, what))
                        elif f in A and f in B and f.endswith("_counts.tsv") and na == prev_unmapped + unm and prev_unmapped > 0 and \
                                [l for l in A[f].splitlines() if not l.startswith("__")] == [l for l in B[f].splitlines() if not l.startswith("__")]:
                            causes.setdefault("C10:unaligned-accumulates", []).append((f, what))
                        else: unexplained.append((f, what))
                    else: unexplained.append((f, what))
                texts = {"C10:unaligned-accumulates": "the __not_aligned line of experiment %s counts the unaligned reads of the experiments processed before it (%s instead of %d)" % (n, na, unm),
                         "C10:sticky-polya-flags": "experiment %s is processed with the polyA requirement flags left by an earlier experiment (%s instead of %s): different transcript models" % (n, mflags.get(n), aflags),
                         "C10:detected-known-isoforms": "with --threads 1 experiment %s does not report known isoforms already reported for an earlier experiment (class-level detected_known_isoforms)" % n,
                         "C10:replicas-group-all-experiments": "experiment %s (one file) gets grouped tables only because another experiment of the invocation has several files" % n}
                for key, fl in causes.items():
                    ctx.violation(key, texts[key], rep(j, experiment=n, position=i, differing_files=fl[:6], stand_alone_arguments=[x.replace(root, "<scratch>") for x in a["args"]]))
                if unexplained:
                    ctx.violation(None, "experiment %s of a multi-experiment run differs from its stand-alone run" % n,
                                  rep(j, experiment=n, position=i, differing_files=unexplained[:8], stand_alone_arguments=[x.replace(root, "<scratch>") for x in a["args"]]))
                prev_known |= set(t for c in mknown for t in c); prev_unmapped += unm
            if all(o[0] is not None and o[1] is not None for o in obs) and not j.get("replicas"):
                allids = sorted(set(t for e in exps for c in e[2] for t in c) | set(t for o in obs for c in o[2] for t in c)); ti = {t: k + 1 for k, t in enumerate(allids)}
                dmi, dme = DEFAULTS[opt]
                ce = clist(zip(exps, seq), lambda e: "(mke %s %d 0 %s %d)" % (cbool(e[0][0]), e[0][1], clist(e[0][2], lambda c: "[%s]" % czs([ti[t] for t in c])), len(EXP[e[1]][0])))
                co = clist(obs, lambda o: "(mkobs (%s, %s, %s) %d %s)" % (cbool(o[0][0]), cbool(o[0][1]), cbool(o[0][2]), o[1], clist(o[2], lambda c: czs(sorted(ti[t] for t in c)))))
                runcases.append(("(%s, %s, 0, %s, %s, %s, %s)" % (cbool(dmi), cbool(dme), cbool(opt == "fname"), cbool(j["threads"] > 1), ce, co),
                                 rep(j, stand_alone=[dict(polyA_high=e[0], unmapped=e[1], known=sum(len(c) for c in e[2])) for e in exps],
                                     observed=[dict(flags=o[0], not_aligned=o[1], known=sum(len(c) for c in o[2])) for o in obs])))
            # ---- combined_* against the experiments' own tables of the same run
            for fname, suffix, full in (("combined_gene_counts.tsv", ".gene_counts.tsv", False), ("combined_gene_tpm.tsv", ".gene_tpm.tsv", True),
                                        ("combined_transcript_counts.tsv", ".transcript_counts.tsv", False), ("combined_transcript_tpm.tsv", ".transcript_tpm.tsv", True)):
                cp = os.path.join(j["out"], fname)
                if not os.path.exists(cp):
                    ctx.violation(None, "%s is missing after a multi-experiment run" % fname, rep(j)); continue
                tabs = [[(f, c[0]) for f, c in read_table(os.path.join(j["out"], n, n + suffix))[1]] for n in seq]
                try: combcases.append(comb_case(full, seq, tabs, cp, rep(j, table=fname)))
                except Exception as e: ctx.violation(None, "%s cannot be read back as a table of decimals (%s)" % (fname, e), rep(j, table=fname))
        ctx.count(evaluations=n_cmp, nontrivial=n_cmp)
        vu = not any(v["key"] == "C10:unaligned-accumulates" for v in ctx.violations); vd = not any(v["key"] == "C10:detected-known-isoforms" for v in ctx.violations)
        vf = flags_variant()
        ctx.notes.append("whole runs: the checked-out code is compared with the model variant flags=%s unaligned=%s detected=%s (repaired = True)" % (vf, vu, vd))
        pre = PRE + "Definition check := check_run %s %s %s.\nDefinition prop := prop_run.\n" % (cbool(vf), cbool(vu), cbool(vd))
        mism, viol = ctx.corr("pipeline_experiment_outcomes", pre, runcases, shard=4, nontrivial=lambda o: len(o["experiments"]) > 1, ctype="runcase")
        # spec violations here are the same leaks as found byte-wise above; they are reported there with their keys, so only model mismatches matter
        if mism and not viol: ctx.corr_report("pipeline_experiment_outcomes", mism, viol)
        elif mism: ctx.notes.append("pipeline_experiment_outcomes: %d runs where the model variant does not predict the observed flags / __not_aligned / known isoforms" % len(mism)); \
            ctx.broken("correspondence:pipeline_experiment_outcomes", "model variant (flags=%s, unaligned=%s, detected=%s) does not predict: %s" % (vf, vu, vd, json.dumps(mism[0], default=str)[:1200]))
        byte_keys = set(v["key"] for v in ctx.violations)
        if viol and not (byte_keys & {"C10:unaligned-accumulates", "C10:sticky-polya-flags", "C10:detected-known-isoforms"}):
            for o in viol[:3]: ctx.violation(None, "flags / __not_aligned / known isoforms of an experiment differ from the stand-alone run although all files are equal", o)
        pre = PRE + "Definition check := check_comb.\nDefinition prop := prop_comb.\n"
        mism, viol = ctx.corr("pipeline_combined_tables", pre, combcases, shard=4, nontrivial=lambda o: len(o["combined_rows"]) > 0, ctype="combcase")
        ctx.corr_report("pipeline_combined_tables", mism, viol, keyfn=lambda o: None, what="a combined_* table of a multi-experiment run is not the per-experiment columns of the experiments' own tables")

        # ------------------------------------------------ 2. pre-seeded class-level state
        seedcases = []
        for j in seeds:
            if j["rc"] != 0: continue
            n = j["name"]; a = alone[(n, j["opt"])]
            if a["rc"] != 0: continue
            ref, chroms = (bref, bchroms) if n == "EB" else (wref, wchroms)
            A, B = snap_of(a, n), snap_of(j, n); diffs = diff_files(A, B)
            akn = known_by_chr(os.path.join(a["out"], n), n, ref, chroms); skn = known_by_chr(os.path.join(j["out"], n), n, ref, chroms)
            allids = sorted(set(t for c in akn + skn for t in c) | set(j["seed"].get("detected", []))); ti = {t: k + 1 for k, t in enumerate(allids)}
            seedcases.append(("(%s, %s, %s)" % (clist(akn, lambda c: czs([ti[t] for t in c])), czs([ti[t] for t in j["seed"].get("detected", [])]), clist(skn, lambda c: czs(sorted(ti[t] for t in c)))),
                              rep(j, known_stand_alone=sum(map(len, akn)), known_seeded=sum(map(len, skn)), own=j["tag"].startswith("own"))))
            if diffs:
                own = j["tag"].startswith("own"); lost = set(t for c in akn for t in c) - set(t for c in skn for t in c)
                if own and lost and lost <= set(j["seed"]["detected"]) and all(any(m in f for m in MODEL_FILES) for f, _ in diffs):
                    ctx.violation("C10:detected-known-isoforms", "a process whose class-level detected_known_isoforms already holds isoforms of this annotation (as after an earlier experiment) does not report them",
                                  rep(j, differing_files=diffs[:6]))
                else:
                    ctx.violation(None, "frame condition violated: outputs depend on class-level state left by unrelated work (%s)" % j["tag"], rep(j, differing_files=diffs[:8]))
        vd2 = not any(v["key"] == "C10:detected-known-isoforms" for v in ctx.violations)
        pre = PRE + "Definition check := check_seed %s.\nDefinition prop (c : seedcase) := true.\n" % cbool(vd2)
        mism, viol = ctx.corr("seeded_class_state", pre, seedcases, shard=4, nontrivial=lambda o: o["own"], ctype="seedcase")
        ctx.corr_report("seeded_class_state", mism, viol)
        ctx.rule("whole runs: a generated three-chromosome data set (gen_data.World; read sets H = all reads with polyA tails, L = the same reads without tails, U = every second read + 7 "
                 "unaligned records, a copy of H, a two-file experiment) and the bundled chr9 data (all reads / every second read); sequences of 2-3 experiments in ONE invocation "
                 "(list file and YAML; same and different data; both orders) x --threads {1,3} x option sets (default, sensitive_ont, --count_exons --read_group --sqanti_output "
                 "--check_canonical, --read_group file_name with a one-file experiment before and after the replicate experiment, --read_group file:<one table> for two experiments with disjoint reads) against stand-alone runs with -p <name>: every file of <out>/<name>/ compared byte for byte after decompression, ignoring the '# Command line:' line; "
                 "flags (isoquant.log), __not_aligned and the reported known isoforms go through the model process_sample_* ; combined_* through combined_ok in Coq; "
                 "runs started through props/c10_seed.py with foreign class-level state (50 unknown isoform ids, counters advanced) must equal the clean run, runs seeded with half of the "
                 "known isoforms the clean run reports reproduce the leak (model chr_known).  %d runs, %d file comparisons" % (len(jobs), n_cmp))
    finally:
        shutil.rmtree(root, ignore_errors=True)


def scan_section(ctx, quick):
    """process-wide state sites of the current source against the reviewed baseline (shared with C06: harness/props/c06_sites.json)"""
    ctx.new_sites = {"order": [], "state": []}
    from props.c06 import scan_sites
    ctx.new_sites = scan_sites(ctx, kinds=("state",))


def run(ctx):
    quick = ctx.tier == "quick"
    ctx.prepare("C10.v")
    ctx.rule("regenerated from the source on every run (tools/translate_extra.py -> coq/gen/Extra.v; bridged to the model by C10_polya_strategy_is_the_source): PolyAUsageStrategies and set_polya_requirement_strategy of src/dataset_processor.py")
    for name in ("scan_section", "input_lists", "input_yaml", "combine_unit", "flags_unit", "pipeline"):
        # one failing adapter must not keep the other sections (in particular the whole-run comparisons) from looking for a concrete failing configuration
        try: globals()[name](ctx, quick)
        except Exception: ctx.broken("harness:%s" % name, "exception in section %s:\n%s" % (name, traceback.format_exc()[-3000:]))
        finally: drop_real_args()
    ctx.assume.append("logging (isoquant.log, its timestamps and the duplicate counter) and the aux/ directory are not outputs; the '# Command line:' header line is ignored; "
                      ".gz files are compared after decompression (gzip headers carry a time stamp)")
    ctx.assume.append("paths in list / YAML files are already normal (os.path.normpath is not modelled); ASCII names; feature ids that pandas reads as missing values (NA, NaN, null, None) "
                      "and values with more than 15 significant digits are outside the combined-table model")
    ctx.assume.append("the model process_sample_* abstracts an experiment to (polyA fraction above threshold, unaligned reads, known isoforms passing the thresholds per chromosome); that "
                      "nothing else is carried between experiments rests on the scan of class attributes / module globals / args mutations in src/ and on the byte comparisons, not on a theorem")
    ctx.assume.append("static scan of state sites (tools/scan_state.py against harness/props/c06_sites.json): syntactic; the verdict of every site is a reviewed judgement, not a theorem")
    ctx.assume.append("pysam / gffutils / pandas / PyYAML; fork start method of multiprocessing (workers inherit the parent's class-level state)")
