"""C03 — output annotations are well-formed and reproduce reference transcripts verbatim.

Unit correspondences (model coq/Gff.v vs the real code): validate_exons, get_exons, GFFPrinter.dump (real files, parsed
back), correct_novel_transcript_ends, TranscriptToGeneJoiner, create_extended_storage (real gffutils databases),
merge_files (real part files).  Pipeline level: traced runs of isoquant.py (bundled data, generated worlds, the
two-region gene of finding #24): every traced call of the functions above is replayed through the model, and both output
GTFs are checked against the input annotation and the chromosome lengths by the Coq predicates gtf_tr_ok / extended_ok."""
import itertools, os, re, json, shutil, tempfile, types, collections, gzip
from fractions import Fraction
from lib import *

STRAND = {"+": 0, "-": 1, ".": 2}
FT = {"CDS": 0, "UTR": 1, "exon": 2, "start_codon": 3, "stop_codon": 4}
KNOWN_KEY = "C03:gene-line-first-dump"
NOEXON_KEY = "C03:joiner-transcript-without-exons"      # repaired by fixes/C03_joiner-transcript-without-exons.diff; the key only classifies the failure on an unrepaired tree


def section_rnd(ctx, name):
    """every section draws from its own generator (seed, section name): sections can be replayed on their own"""
    import random
    return random.Random("%d:%s" % (ctx.seed, name))


class Codes:
    """strings -> integers; `ordered` codes preserve string order (gene ids: the joiner sorts pairs of them)"""
    def __init__(self, ordered=()):
        self.d = {s: i for i, s in enumerate(sorted(set(ordered)))}
        self.frozen = bool(self.d)
    def __call__(self, s):
        if s not in self.d:
            assert not self.frozen, "unknown id %r" % (s,)
            self.d[s] = len(self.d)
        return self.d[s]


def clist(items, f=str, ty=None):
    """lib.clist with a typed empty list where Coq could not infer the element type"""
    items = list(items)
    return "(@nil %s)" % ty if (not items and ty) else "[" + "; ".join(f(x) for x in items) + "]"
def czs(l): return "(@nil Z)" if not l else clist(l, cz)          # overrides lib.czs: an empty list needs its type in a cases file
def civs(l): return "(@nil (Z*Z))" if not l else clist(l, civ)
def cf3(f): return "(%s,%s,%s)" % (cz(f[0]), cz(f[1]), cz(FT[f[2]]))
def cmodel(m, chrc, genec, tidc):
    """m: dict(chr, strand, tid, gene, known, exons, other)"""
    return "(mkT %s %s %s %s %s %s %s)" % (cz(chrc(m["chr"])), cz(STRAND[m["strand"]]), cz(tidc(m["tid"])), cz(genec(m["gene"])), cbool(m["known"]),
                                         civs(m["exons"]), clist(m["other"], cf3))
def cline(l):
    if l[0] == "G": return "(GeneL %s)" % " ".join(cz(x) for x in l[1:])
    if l[0] == "T": return "(TrL %s)" % " ".join(cz(x) for x in l[1:])
    return "(FeatL %s)" % " ".join(cz(x) for x in l[1:])

def model_dict(m):
    from src.gene_info import TranscriptModelType
    return dict(chr=m.chr_id, strand=m.strand, tid=m.transcript_id, gene=m.gene_id, known=m.transcript_type == TranscriptModelType.known,
                exons=[tuple(e) for e in m.exon_blocks], other=[tuple(f) for f in m.other_features])

def parse_gtf_lines(text, chrc, genec, tidc):
    out = []
    for l in text.splitlines():
        if not l.strip() or l.startswith("#"): continue
        v = l.split("\t"); a = dict(re.findall(r'(\S+) "([^"]*)"', v[8]))
        c, s, e, st = chrc(v[0]), int(v[3]), int(v[4]), STRAND[v[6]]
        if v[2] == "gene": out.append(("G", c, s, e, st, genec(a["gene_id"]), int(a["transcripts"])))
        elif v[2] == "transcript": out.append(("T", c, s, e, st, genec(a["gene_id"]), tidc(a["transcript_id"])))
        else: out.append(("F", c, FT[v[2]], s, e, st, genec(a["gene_id"]), tidc(a["transcript_id"]), int(a["exon_number"])))
    return out


class FakeGI:
    """what GFFPrinter.dump reads of a GeneInfo"""
    def __init__(self, chr_id, regions, empty):
        self.chr_id = chr_id; self._regions = dict(regions); self._empty = empty; self.feature_attributes = {}; self.sources = {}
    def empty(self): return self._empty
    def get_gene_regions(self): return self._regions

class FakeIds:
    def get_id(self, chr_id, feature, strand): return "%s.e" % chr_id


PRE_DUMP = """From IQ Require Import Exons Gff.
Open Scope Z_scope.
Definition line_eqb (a b:line) : bool :=
  match a, b with
  | GeneL a1 a2 a3 a4 a5 a6, GeneL b1 b2 b3 b4 b5 b6 => zs_eqb [a1;a2;a3;a4;a5;a6] [b1;b2;b3;b4;b5;b6]
  | TrL a1 a2 a3 a4 a5 a6, TrL b1 b2 b3 b4 b5 b6 => zs_eqb [a1;a2;a3;a4;a5;a6] [b1;b2;b3;b4;b5;b6]
  | FeatL a1 a2 a3 a4 a5 a6 a7 a8, FeatL b1 b2 b3 b4 b5 b6 b7 b8 => zs_eqb [a1;a2;a3;a4;a5;a6;a7;a8] [b1;b2;b3;b4;b5;b6;b7;b8]
  | _, _ => false end.
Definition same_set (a b:list Z) := forallb (fun x => zmem x b) a && forallb (fun x => zmem x a) b.
Definition T := ((list Z * ginfo * list tmodel) * outcome (list Z * list line))%type.
Definition check (c:T) : bool :=
  let '(pr, gi, st) := fst c in
  outcome_eqb (fun a b => same_set (fst a) (fst b) && list_eqb line_eqb (snd a) (snd b)) (dump pr gi st) (snd c).
(* inside the hypotheses (disjoint positive exons, one chromosome) the call must succeed and its lines satisfy the per-call specification *)
Definition hyp (c:T) : bool :=
  let '(pr, gi, st) := fst c in
  forallb (fun m => sd_b (t_exons m) && negb (Nat.eqb (length (t_exons m)) 0) && (0 <? fst (hd (0,0) (t_exons m))) && (t_chr m =? g_chr gi)) st.
Definition prop (c:T) : bool :=
  negb (hyp c) || match snd c with Ok (p, ls) => dump_lines_ok (fst (fst (fst c))) ls | Raises _ => false end.
"""


def run_dump_unit(ctx, quick):
    from src.transcript_printer import GFFPrinter, validate_exons
    from src.gene_info import TranscriptModel, TranscriptModelType
    rnd = section_rnd(ctx, "dump")
    d = tempfile.mkdtemp(prefix="c03dump_", dir=ctx.scratch)
    cases = []
    def tm(md):
        return TranscriptModel(md["chr"], md["strand"], md["tid"], md["gene"], list(md["exons"]),
                               TranscriptModelType.known if md["known"] else TranscriptModelType.novel_not_in_catalog, other_features=list(md["other"]))
    counter = [0]
    def one_printer(calls, preprinted=()):
        """calls: list of (gi_dict, [model dicts]); runs them through ONE real printer, one case per call"""
        counter[0] += 1
        name = "p%d" % counter[0]
        pr = GFFPrinter(d, name, FakeIds(), output_r2t=False)
        pr.printed_gene_ids.update(preprinted)
        allg = set(preprinted)
        for gi, ms in calls:
            allg.update(gi["regions"]); allg.update(m["gene"] for m in ms)
        genec = Codes(allg); chrc = Codes(); tidc = Codes()
        chrc("cA")
        off = 0
        for gi, ms in calls:
            before = sorted(genec(g) for g in pr.printed_gene_ids)
            fg = FakeGI(gi["chr"], gi["regions"], gi["empty"])
            try:
                pr.dump(fg, [tm(m) for m in ms])
                pr.out_gff.flush()
                text = open(pr.model_fname).read()
                new = text[off:]; off = len(text)
                lines = parse_gtf_lines(new, chrc, genec, tidc)
                after = sorted(genec(g) for g in pr.printed_gene_ids)
                out = "(Ok (%s, %s))" % (czs(after), clist(lines, cline, "line")); impl = dict(printed=after, lines=new.splitlines())
            except IndexError:
                out = "(@Raises (list Z * list line) 1)"; impl = "IndexError"
                pr.out_gff.flush(); off = len(open(pr.model_fname).read())
            except AssertionError:
                out = "(@Raises (list Z * list line) 2)"; impl = "AssertionError"
                pr.out_gff.flush(); off = len(open(pr.model_fname).read())
            inp = "((%s, (mkG %s %s %s)), %s)" % (czs(before), cz(chrc(gi["chr"])), cbool(gi["empty"]),
                                                 clist(sorted(gi["regions"].items()), lambda kv: "(%s,%s)" % (cz(genec(kv[0])), civ(kv[1]))),
                                                 clist(ms, lambda m: cmodel(m, chrc, genec, tidc), "tmodel"))
            cases.append(("(%s, %s)" % (inp, out), dict(printed_before=sorted(pr.printed_gene_ids) if impl in ("IndexError", "AssertionError") else None,
                                                        gene_info=gi, models=ms, impl=impl)))
        pr.out_gff.close(); os.remove(pr.model_fname)

    # exhaustive small domain: <= 2 models, 2 genes (one with a reference range), 8 exon lists incl. every way validate_exons can fail or be too weak
    E = [[], [(1, 2)], [(1, 2), (4, 5)], [(4, 5), (1, 2)], [(1, 5), (3, 8)], [(0, 3)], [(3, 2)], [(2, 3), (2, 3)]]
    opts = [(e, g, s) for e in E for g in ("g0", "g1") for s in "+-"]
    lists = [[o] for o in opts] + [[a, b] for a in opts for b in opts]
    if quick: lists = lists[:len(opts)] + rnd.sample(lists[len(opts):], 300)
    for ml in lists:
        for pre in ((), ("g0",)):
            ms = [dict(chr="cA", strand=s, tid="t%d" % i, gene=g, known=False, exons=e, other=[]) for i, (e, g, s) in enumerate(ml)]
            one_printer([(dict(chr="cA", regions={"g0": (3, 6)}, empty=False), ms)], pre)
    n_small = len(cases)

    # structured random: several calls per printer, genes recurring across calls, reference features, rare malformed lists
    def rnd_exons(lo, hi, n):
        c = sorted(rnd.sample(range(lo, hi), 2 * n)); return [(c[2 * i], c[2 * i + 1]) for i in range(n)]
    for _ in range(150 if quick else 1500):
        genes = ["G%02d" % i for i in rnd.sample(range(20), rnd.randint(1, 4))]
        regions = {g: tuple(sorted(rnd.sample(range(1, 3000), 2))) for g in genes if rnd.random() < .6}
        calls = []; k = 0
        for c in range(rnd.randint(1, 3)):
            ms = []
            for i in range(rnd.randint(0, 6)):
                k += 1; g = rnd.choice(genes); known = rnd.random() < .4
                ex = rnd_exons(1, 3000, rnd.randint(1, 5))
                r = rnd.random()
                if r < .04: ex = ex[::-1]
                elif r < .08 and len(ex) > 1: ex[1] = (ex[0][0] + 1, ex[1][1])            # sorted but overlapping
                elif r < .10: ex[0] = (0, ex[0][1])
                elif r < .12: ex = []
                elif r < .14: ex[-1] = (ex[-1][1], ex[-1][0])
                other = []
                if known and ex and rnd.random() < .7:
                    for e in ex:
                        if e[0] <= e[1] and rnd.random() < .7: other.append((rnd.randint(e[0], e[1]), e[1], rnd.choice(["CDS", "UTR", "start_codon", "stop_codon"])))
                        if rnd.random() < .3: other.append((e[0], e[1], "CDS"))
                ms.append(dict(chr="cB" if rnd.random() < .01 else "cA", strand=rnd.choice("++--."), tid="t%d" % k, gene=g, known=known, exons=ex, other=other))
            calls.append((dict(chr="cA", regions=regions, empty=rnd.random() < .15), ms))
        one_printer(calls, [g for g in genes if rnd.random() < .1])
    shutil.rmtree(d, ignore_errors=True)
    ctx.rule("GFFPrinter.dump on real files parsed back: every list of <= 2 models over 8 exon lists (empty, unsorted, overlapping, zero start, inverted, duplicate) x 2 genes x strands x printer state (%d cases%s) + random printers with 1-3 calls, recurring genes, reference CDS/UTR/codon features, other chromosome; non-trivial = at least one transcript printed" % (n_small, ", sampled" if quick else ""))
    mism, viol = ctx.corr("dump", PRE_DUMP, cases, shard=300, nontrivial=lambda o: isinstance(o["impl"], dict) and any("\ttranscript\t" in l for l in o["impl"]["lines"]))
    ctx.corr_report("dump", mism, viol)

    # validate_exons itself: exhaustive lists of <= 3 intervals over {0..3}
    PRE_V = """From IQ Require Import Exons Gff.
Open Scope Z_scope.
Definition check (c:list iv * bool) : bool := Bool.eqb (validate_exons (fst c)) (snd c).
(* accepted lists are sorted in tuple order with 0 < start <= end; disjoint positive lists are accepted *)
Fixpoint lexs (l:list iv) : bool := match l with a :: ((b :: _) as t) => iv_leb a b && lexs t | _ => true end.
Definition prop (c:list iv * bool) : bool :=
  (negb (snd c) || (lexs (fst c) && forallb (fun x => (0 <? fst x) && (fst x <=? snd x)) (fst c)))
  && (negb (sd_b (fst c) && (0 <? fst (hd (1,1) (fst c)))) || snd c).
"""
    ivs = [(a, b) for a in range(0, 4) for b in range(0, 4)]
    cases = []
    for n in range(0, 4):
        for l in itertools.product(ivs, repeat=n):
            cases.append(("(%s, %s)" % (civs(l), cbool(validate_exons(list(l)))), dict(exons=l)))
    for _ in range(2000):
        l = rnd_exons(1, 200, rnd.randint(1, 6))
        if rnd.random() < .3: rnd.shuffle(l)
        cases.append(("(%s, %s)" % (civs(l), cbool(validate_exons(list(l)))), dict(exons=l)))
    ctx.rule("validate_exons: every list of <= 3 intervals over {0..3}^2 (exhaustive) + random lists; non-trivial = accepted")
    mism, viol = ctx.corr("validate_exons", PRE_V, cases, shard=1500, nontrivial=lambda o: validate_exons(list(o["exons"])))
    ctx.corr_report("validate_exons", mism, viol)



PRE_ENDS = """From IQ Require Import Exons Gff.
Open Scope Z_scope.
Definition T := ((Z * list iv * list iv) * list iv)%type.
Definition check (c:T) : bool := let '(apa, ex, reads) := fst c in ivl_eqb (correct_ends apa ex reads) (snd c).
(* for disjoint input exons: still disjoint, same introns, ends only move inwards *)
Definition prop (c:T) : bool :=
  let '(apa, ex, reads) := fst c in
  negb (sd_b ex && negb (Nat.eqb (length ex) 0)) ||
  (sd_b (snd c) && ivl_eqb (jfb (snd c)) (jfb ex) && Nat.eqb (length (snd c)) (length ex)
   && (fst (hd (0,0) ex) <=? fst (hd (0,0) (snd c))) && (snd (last (snd c) (0,0)) <=? snd (last ex (0,0)))).
"""

def run_ends_unit(ctx, quick):
    from src.graph_based_model_construction import GraphBasedModelConstructor as G
    rnd = section_rnd(ctx, "ends"); cases = []
    def call(apa, ex, reads):
        fs = types.SimpleNamespace(params=types.SimpleNamespace(apa_delta=apa))
        m = types.SimpleNamespace(exon_blocks=list(ex), transcript_id="t")
        G.correct_novel_transcript_ends(fs, m, [types.SimpleNamespace(corrected_exons=[(a, a), (b, b)]) for a, b in reads])
        cases.append(("((%s, %s, %s), %s)" % (cz(apa), civs(ex), civs(reads), civs(m.exon_blocks)), dict(apa_delta=apa, exons=ex, reads=reads, impl=m.exon_blocks)))
    # exhaustive: one- and two-exon models over a small range, up to two reads with free ends, apa_delta 0/1
    small = [[(2, 5)], [(3, 3)], [(2, 3), (6, 8)], [(1, 4), (6, 6)]]
    pts = range(0, 10)
    for ex in small:
        rs = [(a, b) for a in pts for b in pts if a <= b]
        for apa in (0, 1):
            for r in rs: call(apa, ex, [r])
            for r1, r2 in (rnd.sample([(x, y) for x in rs for y in rs], 250 if quick else 2000)): call(apa, ex, [r1, r2])
    n_small = len(cases)
    for _ in range(2500 if quick else 20000):
        n = rnd.randint(1, 5); c = sorted(rnd.sample(range(100, 3000), 2 * n)); ex = [(c[2 * i], c[2 * i + 1]) for i in range(n)]
        if rnd.random() < .05 and n > 1: ex[1] = (ex[0][1] - 1, ex[1][1])
        apa = rnd.choice([0, 5, 50])
        reads = []
        for k in range(rnd.randint(0, 6)):
            a = rnd.choice([ex[0][0] + rnd.randint(-60, 60), rnd.randint(ex[0][0] - 100, ex[0][1] + 20), ex[0][1], ex[0][1] - 1])
            b = rnd.choice([ex[-1][1] + rnd.randint(-60, 60), rnd.randint(ex[-1][0] - 20, ex[-1][1] + 100), ex[-1][0], ex[-1][0] + 1])
            reads.append((a, b))
        call(apa, ex, reads)
    ctx.rule("correct_novel_transcript_ends (unbound, on objects exposing exon_blocks / corrected_exons / params.apa_delta): 1-2 exon models over {0..9} with every single read and sampled read pairs (%d cases) + random 1-5 exon models with reads around both ends, apa_delta in {0,5,50}; non-trivial = an end moved" % n_small)
    mism, viol = ctx.corr("correct_novel_transcript_ends", PRE_ENDS, cases, shard=600, nontrivial=lambda o: o["impl"] != o["exons"])
    ctx.corr_report("correct_novel_transcript_ends", mism, viol)

    # get_exons: where novel exon lists come from
    from src.common import get_exons
    cases = []
    P = range(1, 8)
    ivs = [(a, b) for a in P for b in P if a <= b]
    for r in [(1, 7), (2, 6), (3, 4)]:
        for n in (0, 1, 2):
            for ins in itertools.product(ivs, repeat=n):
                cases.append(("((%s, %s), %s)" % (civ(r), civs(ins), civs(get_exons(r, list(ins)))), dict(region=r, introns=ins)))
    for _ in range(2000 if quick else 20000):
        n = rnd.randint(1, 6); c = sorted(rnd.sample(range(100, 3000), 2 * n + 2)); r = (c[0], c[-1]); ins = [(c[2 * i + 1], c[2 * i + 2]) for i in range(n)]
        x = rnd.random()
        if x < .15: rnd.shuffle(ins)
        elif x < .3 and n > 1: ins[1] = (ins[0][0], ins[1][1])
        elif x < .4: r = (ins[0][0] + rnd.randint(-2, 2), ins[-1][1] + rnd.randint(-2, 2))
        cases.append(("((%s, %s), %s)" % (civ(r), civs(ins), civs(get_exons(r, list(ins)))), dict(region=r, introns=ins)))
    ctx.rule("get_exons: regions x every list of <= 2 introns over {1..7} (exhaustive) + random lists (ordered, shuffled, overlapping, region cut at the introns); non-trivial = hypothesis of get_exons_wf holds")
    def ge_hyp(o):
        r, ins = o["region"], o["introns"]
        return all(a <= b for a, b in ins) and all(x[0] <= y[0] for x, y in zip(ins, ins[1:])) and all(r[0] - 1 <= i[0] <= r[1] + 1 for i in ins) and r[0] <= r[1] + 2
    mism, viol = ctx.corr("get_exons", PRE_GE, cases, shard=800, nontrivial=ge_hyp)
    ctx.corr_report("get_exons", mism, viol)


PRE_GE = """From IQ Require Import Exons Gff.
Open Scope Z_scope.
Definition T := ((iv * list iv) * list iv)%type.
Definition check (c:T) : bool := ivl_eqb (get_exons (fst (fst c)) (snd (fst c))) (snd c).
Fixpoint mono_b (l:list iv) : bool := match l with [] => true | a :: t => (fst a <=? snd a) && match t with [] => true | b :: _ => fst a <=? fst b end && mono_b t end.
(* hypothesis of get_exons_wf decided on the input; then the output must be disjoint, increasing, well-formed *)
Definition prop (c:T) : bool :=
  let '(r, ins) := fst c in
  negb (mono_b ins && forallb (fun i => (fst r - 1 <=? fst i) && (fst i <=? snd r + 1)) ins && (fst r <=? snd r + 2)) || sd_b (snd c).
"""


PRE_JOIN = """From IQ Require Import Exons Gff.
Open Scope Z_scope.
Definition refg := list (Z*(Z*iv)). Definition reft := list (Z*(Z*list iv)).
(* output: new gene of every model in order, final (gene, strand, region) table sorted by gene *)
Definition T := ((bool * refg * reft * list tmodel) * outcome (list Z * list (Z*(Z*iv))))%type.
Definition props_of (st:jstate) := isort (fun a b : Z*(Z*iv) => fst a <=? fst b) (map (fun kv => (fst kv, (j_strand (snd kv), j_region (snd kv)))) (s_props st)).
Definition model (rg:refg) (rt:reft) (st:list tmodel) : outcome (list Z * list (Z*(Z*iv))) :=
  match joiner_final rg rt st with
  | Raises k => Raises k
  | Ok js => match relabel (s_g2t js) st with Raises k => Raises k | Ok ms => Ok (map t_gene ms, props_of js) end
  end.
Definition out_eqb := outcome_eqb (pair_eqb zs_eqb (list_eqb (pair_eqb Z.eqb (pair_eqb Z.eqb iv_eqb)))).
Definition check (c:T) : bool := let '(wf, rg, rt, st) := fst c in out_eqb (model rg rt st) (snd c).
(* well-formed stream: no exception; known models keep the gene of the annotation; one strand per output gene, equal to the
   final strand table; every model's region inside its gene's final region; a model only moves to a gene of its own strand *)
Definition prop (c:T) : bool :=
  let '(wf, rg, rt, st) := fst c in
  negb wf ||
  match snd c with
  | Raises _ => false
  | Ok (genes, props) =>
      Nat.eqb (length genes) (length st) &&
      forallb (fun mg => let '(m, g) := mg in
         (negb (t_known m) || match assoc (t_id m) rt with Some (g0, _) => g =? g0 | None => false end) &&
         match assoc g props with
         | Some (s, rgn) => (s =? t_strand m) && (t_known m || contains_b rgn (tregion (t_exons m)))
         | None => false end) (combine st genes)
  end.
"""

class FakeJGI:
    def __init__(self, genes, trs):
        self.gene_strands = collections.OrderedDict((g, s) for g, s, r in genes)
        self._regions = {g: r for g, s, r in genes}
        self.gene_id_map = collections.OrderedDict((t, g) for t, g, i in trs)
        self.all_isoforms_introns = {t: list(i) for t, g, i in trs if i is not None}      # None: transcript record without exons (GeneInfo skips it)
    def get_gene_regions(self): return self._regions

def introns_of(ex): return [(a[1] + 1, b[0] - 1) for a, b in zip(ex, ex[1:]) if a[1] + 1 < b[0]]

def float_fragile(scores):
    s = sorted(set(scores))
    return any(0 < b - a < 1e-9 for a, b in zip(s, s[1:])) or any(abs(x - 0.1) < 1e-9 for x in s)

def joiner_term(genes, trs, models, wf, out_genes, regions, exc):
    """Coq case of one joiner run; regions: {gene: (strand, region)} after joining.  Transcripts without exons are not part of the model's input"""
    trs = [t for t in trs if t[2] is not None]
    genec = Codes([g for g, s, r in genes] + [m["gene"] for m in models] + list(out_genes or []) + list(regions or {})); tidc = Codes(); chrc = Codes()
    if exc == "AssertionError": out = "(@Raises (list Z * list (Z*(Z*(Z*Z)))) 2)"
    elif exc == "KeyError": out = "(@Raises (list Z * list (Z*(Z*(Z*Z)))) 3)"
    else:
        out = "(Ok (%s, %s))" % (czs([genec(g) for g in out_genes]),
                                 clist(sorted((genec(g), STRAND[v[0]], tuple(v[1])) for g, v in regions.items()), lambda x: "(%s,(%s,%s))" % (cz(x[0]), cz(x[1]), civ(x[2])), "(Z*(Z*(Z*Z)))"))
    inp = "(%s, %s, %s, %s)" % (cbool(wf), clist(genes, lambda g: "(%s,(%s,%s))" % (cz(genec(g[0])), cz(STRAND[g[1]]), civ(g[2])), "(Z*(Z*(Z*Z)))"),
                                clist(trs, lambda t: "(%s,(%s,%s))" % (cz(tidc(t[0])), cz(genec(t[1])), civs(t[2])), "(Z*(Z*list (Z*Z)))"),
                                clist(models, lambda m: cmodel(m, chrc, genec, tidc), "tmodel"))
    return "(%s, %s)" % (inp, out)

def joiner_case(genes, trs, models, wf, origin=None):
    """genes: [(gid, strand, region)], trs: [(tid, gid, introns)], models: [model dict]; runs the REAL joiner. Returns (coq_term, obj) or None when float-fragile"""
    from src import graph_based_model_construction as gb
    from src.gene_info import TranscriptModel, TranscriptModelType
    tms = [TranscriptModel(m["chr"], m["strand"], m["tid"], m["gene"], list(m["exons"]), TranscriptModelType.known if m["known"] else TranscriptModelType.novel_not_in_catalog) for m in models]
    logged = []
    class J(gb.TranscriptToGeneJoiner):
        def count_score(self, a, b):
            v = gb.TranscriptToGeneJoiner.count_score(self, a, b); logged.append(v); return v
    out_genes = regions = exc = None
    try:
        j = J(tms, FakeJGI(genes, trs)); j.join_transcripts()
        out_genes = [t.gene_id for t in tms]; regions = {g: (j.gene_strands[g], j.gene_regions[g]) for g in j.gene_regions}
        impl = dict(genes=out_genes, regions=regions)
    except AssertionError:
        exc = impl = "AssertionError"
    except KeyError:
        exc = impl = "KeyError"
    if float_fragile(logged): return None
    return joiner_term(genes, trs, models, wf, out_genes, regions, exc), dict(ref_genes=genes, ref_transcripts=trs, models=models, impl=impl, wf=wf, origin=origin, noexon=any(t[2] is None for t in trs),
                                         moved=isinstance(impl, dict) and impl["genes"] != [m["gene"] for m in models])

def run_joiner_unit(ctx, quick):
    rnd = section_rnd(ctx, "joiner"); cases = []; fragile = 0
    def rnd_exons(lo, hi, n):
        c = sorted(rnd.sample(range(lo, hi), 2 * n)); return [(c[2 * i], c[2 * i + 1]) for i in range(n)]
    for it in range(1500 if quick else 12000):
        wf = rnd.random() < .9
        ng = rnd.randint(0, 3); genes = []; trs = []; ref_ex = {}
        names = rnd.sample(["ENSG%02d" % i for i in range(30)] + ["novel_gene_c_%d" % i for i in range(5)], ng)
        for g in names:
            lo = rnd.randint(1, 4000); ex_all = []
            s = rnd.choice("+-")
            for k in range(rnd.randint(0, 3)):
                ex = rnd_exons(lo, lo + 1500, rnd.randint(1, 4)); t = "%s.t%d" % (g, k); ref_ex[t] = (g, s, ex); ex_all += ex
                trs.append((t, g, introns_of(ex)))
            rg = (min(e[0] for e in ex_all), max(e[1] for e in ex_all)) if ex_all else tuple(sorted(rnd.sample(range(1, 5000), 2)))
            if rnd.random() < .3: rg = (max(1, rg[0] - rnd.randint(0, 300)), rg[1] + rnd.randint(0, 300))
            genes.append((g, s, rg))
        rnd.shuffle(trs) if rnd.random() < .2 else None
        if genes and wf and rnd.random() < .05: trs.insert(rnd.randint(0, len(trs)), ("%s.noexons" % genes[0][0], genes[0][0], None))
        models = []; n_novel_gene = 0
        for k in range(rnd.randint(0, 6)):
            r = rnd.random()
            if r < .25 and ref_ex:
                t = rnd.choice(sorted(ref_ex)); g, s, ex = ref_ex[t]
                if any(m["tid"] == t for m in models): continue
                models.append(dict(chr="c", strand=s, tid=t, gene=g, known=True, exons=ex, other=[]))
                continue
            # a novel model: variation of a reference transcript or of an earlier novel model (shared introns / overlapping range), or free
            base = None
            if r < .75 and (ref_ex or models):
                src = rnd.choice(sorted(ref_ex) + [m["tid"] for m in models if not m["known"]])
                base = ref_ex[src] if src in ref_ex else next((m["gene"], m["strand"], m["exons"]) for m in models if m["tid"] == src)
            if base:
                g0, s, ex = base; ex = list(ex)
                v = rnd.random()
                if v < .3 and len(ex) > 2: del ex[rnd.randint(1, len(ex) - 2)]
                elif v < .6: ex[0] = (max(1, ex[0][0] - rnd.randint(0, 400)), ex[0][1]); ex[-1] = (ex[-1][0], ex[-1][1] + rnd.randint(0, 400))
                elif v < .8 and len(ex) > 1: ex = ex[:-1]
                if rnd.random() < .15: s = rnd.choice("+-.")
            else:
                g0 = None; s = rnd.choice("+-."); ex = rnd_exons(1, 6000, rnd.randint(1, 4))
            if g0 in [g for g, _, _ in genes] and rnd.random() < .4 and (wf is False or s == dict((g, st) for g, st, _ in genes)[g0]):
                gene = g0
            else:
                n_novel_gene += 1; gene = "novel_gene_c_%d" % (100 + rnd.randint(0, 9) * 10 + n_novel_gene)
                if not wf and rnd.random() < .3 and models: gene = rnd.choice(models)["gene"]
            models.append(dict(chr="c", strand=s, tid="transcript%d.c.nnic" % k, gene=gene, known=False, exons=ex, other=[]))
        if not wf and models and rnd.random() < .2: models.append(dict(models[0], tid="unknown.t", known=True))
        c = joiner_case(genes, trs, models, wf)
        if c is None: fragile += 1
        else: cases.append(c)
    ctx.rule("TranscriptToGeneJoiner (real class, gene_info exposing gene_strands/get_gene_regions/gene_id_map/all_isoforms_introns): 0-3 reference genes with 0-3 transcripts, 0-6 models = known copies + novel variations sharing introns/ranges with references or earlier novel models, own or reference genes; malformed stream (strand clash, unknown id) expecting the exception; non-trivial = a model changed gene")
    ctx.notes.append("joiner: %d generated cases skipped because two scores (or a score and 0.1) are closer than 1e-9 (float vs exact fraction)" % fragile)
    mism, viol = ctx.corr("gene_joiner", PRE_JOIN, cases, shard=300, nontrivial=lambda o: o["moved"])
    ctx.corr_report("gene_joiner", mism, viol, keyfn=lambda o: NOEXON_KEY if o["impl"] == "KeyError" and o["noexon"] and o["wf"] else None,
                    what="TranscriptToGeneJoiner fails on a gene_info holding a transcript record without exons")


PRE_MERGE = """From IQ Require Import Exons Gff.
Open Scope Z_scope.
Definition T := ((bool * list part) * list Z)%type.
Definition check (c:T) : bool := zs_eqb (map snd (merge_files (fst (fst c)) (snd (fst c)))) (snd c).
Fixpoint is_infix (a b:list Z) : bool :=
  match b with [] => match a with [] => true | _ => false end | _ :: t => zs_eqb a (firstn (length a) b) || is_infix a t end.
(* no line lost or duplicated, every part's lines stay together and in order (headers dropped unless copied from the first part) *)
Definition prop (c:T) : bool :=
  let '(ch, parts) := fst c in
  let bodies := map (fun p => map snd (drop_header (p_lines p))) (filter p_exists parts) in
  if ch then true else
  Nat.eqb (length (snd c)) (length (concat bodies)) && forallb (fun b => is_infix b (snd c)) bodies.
"""

def run_merge_unit(ctx, quick):
    from src.file_utils import merge_files, merge_file_list
    rnd = section_rnd(ctx, "merge"); cases = []
    pool = ["chr1", "chr2", "chr10", "chr11", "chr20", "chrX", "chrY", "chrM", "chr1_KI270706v1_random", "1", "2", "10", "X", "Chr3", "chr03", "chr3", "chr003",
            "scaffold_12", "scaffold_2", "A10b2", "a10B10", "a10b", "chrUn_GL000195v1", "chr2L", "chr2R", "2L"]
    d = tempfile.mkdtemp(prefix="c03merge_", dir=ctx.scratch)
    for it in range(400 if quick else 4000):
        sub = os.path.join(d, "m%d" % it); os.makedirs(sub)
        label = rnd.choice(["S", "OUT", "sample7"]); fname = os.path.join(sub, label + ".transcript_models.gtf")
        chr_ids = rnd.sample(pool, rnd.randint(1, 7)); copy_header = rnd.random() < .25
        names = merge_file_list(fname, label, chr_ids)
        assert all(os.path.basename(n) == "%s_%s.transcript_models.gtf" % (label, c) for n, c in zip(names, chr_ids))
        parts = []; k = 0; all_exist = True
        for n in names:
            exists = rnd.random() < .97; lines = []
            for h in range(rnd.choice([0, 0, 0, 1, 2])): k += 1; lines.append((True, k))
            for b in range(rnd.choice([0, 1, 2, 5])):
                k += 1; lines.append((rnd.random() < .05 and b > 0, k))
            if exists:
                with open(n, "w") as f:
                    for hsh, i in lines: f.write("%sline%d\n" % ("#" if hsh else "", i))
            else: all_exist = False
            parts.append((n, exists, lines))
        with open(fname, "w") as out:
            try:
                merge_files(fname, label, chr_ids, out, copy_header=copy_header); raised = False
            except FileNotFoundError:
                raised = True
        got = [int(re.search(r"\d+$", l).group(0)) for l in open(fname).read().splitlines()]
        if raised != (not all_exist):
            ctx.violation(None, "merge_files: removal of part files %s" % ("raised although all parts exist" if raised else "did not raise although a part is missing"), dict(chr_ids=chr_ids))
        left = [n for n, e, l in parts if e and os.path.exists(n)]
        if left and not raised: ctx.violation(None, "merge_files left part files behind", dict(chr_ids=chr_ids, left=left))
        term = "((%s, %s), %s)" % (cbool(copy_header), clist(parts, lambda p: "(mkP %s %s %s)" % (cstr_bytes(p[0]), cbool(p[1]), clist(p[2], lambda l: "(%s,%s)" % (cbool(l[0]), cz(l[1]))))), czs(got))
        cases.append((term, dict(chr_ids=chr_ids, label=label, copy_header=copy_header, parts=[(os.path.basename(n), e, l) for n, e, l in parts], impl=got)))
    shutil.rmtree(d, ignore_errors=True)
    ctx.rule("merge_files on real part files named by merge_file_list: 1-7 chromosome names from a pool with numbers, mixed case, leading zeros, suffixes (natural-order ties), 0-2 leading '#' lines, '#' lines inside the body, empty files, occasionally a missing part (FileNotFoundError at removal expected), copy_header on/off; non-trivial = >= 2 parts")
    mism, viol = ctx.corr("merge_files", PRE_MERGE, cases, shard=100, nontrivial=lambda o: len(o["chr_ids"]) > 1)
    ctx.corr_report("merge_files", mism, viol)


# ------------------------------------------------------------------ whole files: per-chromosome printers + merge_files (round 3)
PRE_FILES = """From IQ Require Import Exons Gff GffThm GffMulti GffFiles GffMultiSpec.
Open Scope Z_scope.
Definition T := (list chrom * (list line * list line))%type.
Definition check (c:T) : bool := files_check c.
(* C03_extended_file_is_reference_plus_novel_all_chromosomes, C03_transcript_ids_once_per_file, C03_one_dump_gene_contains_all_transcripts and
   C03_gene_contains_all_transcripts_iff (per chromosome of the models file), evaluated on the implementation's two merged files *)
Definition prop (c:T) : bool := files_prop c.
"""

def run_files_unit(ctx, quick):
    """REAL GFFPrinter objects per chromosome (models printer: one dump per region; extended printer: one dump of reference + novel
    models), REAL merge_files(copy_header=False) over the part files, both merged files parsed back and compared with GffFiles.merged"""
    from src.transcript_printer import GFFPrinter
    from src.gene_info import TranscriptModel, TranscriptModelType
    from src.file_utils import merge_files
    rnd = section_rnd(ctx, "files"); cases = []
    pool = ["chr1", "chr2", "chr10", "chr11", "chrX", "chrM", "1", "2", "10", "X", "chr1.2", "chr1_2", "scaffold_12", "scaffold_2", "Chr3", "chr03"]
    d = tempfile.mkdtemp(prefix="c03files_", dir=ctx.scratch)
    def tm(md):
        return TranscriptModel(md["chr"], md["strand"], md["tid"], md["gene"], list(md["exons"]),
                               TranscriptModelType.known if md["known"] else TranscriptModelType.novel_not_in_catalog, other_features=list(md["other"]))
    def rnd_exons(lo, hi, n):
        c = sorted(rnd.sample(range(lo, hi), 2 * n)); return [(c[2 * i], c[2 * i + 1]) for i in range(n)]
    def world(it, fixed=None):
        sub = os.path.join(d, "w%d" % it); os.makedirs(sub)
        label = "S"
        chr_ids = fixed["chr_ids"] if fixed else rnd.sample(pool, rnd.randint(1, 4))
        chroms = []; k = [0]
        for ci, chr_id in enumerate(chr_ids):
            if fixed: chroms.append(fixed["make"](chr_id)); continue
            genes = ["%s_G%d" % (chr_id, i) for i in range(rnd.randint(0, 3))]
            regions = {}; ref = []
            for g in genes:
                lo = rnd.randint(1, 4000); hi = lo + rnd.randint(200, 3000); regions[g] = (lo, hi); st = rnd.choice("+-")
                for i in range(rnd.randint(1, 3)):
                    k[0] += 1; ex = rnd_exons(lo, hi + 1, rnd.randint(1, 4)); ex[0] = (lo, ex[0][1]) if i == 0 else ex[0]
                    r = rnd.random()
                    if r < .05 and len(ex) > 1: ex = ex[::-1]                        # fails validate_exons: never printed
                    other = [(ex[0][0], ex[0][1], "CDS")] if rnd.random() < .3 and ex[0][0] <= ex[0][1] else []
                    ref.append(dict(chr=chr_id, strand=st, tid="R%d" % k[0], gene=g, known=True, exons=ex, other=other))
            has_ref = bool(genes)
            calls = []
            for c in range(rnd.randint(0, 3)):
                ms = []
                for i in range(rnd.randint(0, 4)):
                    if ref and rnd.random() < .4:
                        m = rnd.choice(ref)
                        if any(m["tid"] == x["tid"] for _, xs in calls for x in xs) or any(m["tid"] == x["tid"] for x in ms): continue
                        ms.append(m)
                    else:
                        k[0] += 1
                        g = rnd.choice(genes) if genes and rnd.random() < .6 else "novel_gene_%s_%d" % (chr_id, rnd.randint(1, 3))
                        lo, hi = regions.get(g, (rnd.randint(1, 4000), 0)); hi = hi or lo + 2000
                        a = max(1, lo - rnd.choice([0, 0, 300])); b = hi + rnd.choice([0, 0, 0, 500])       # sometimes beyond the annotated range
                        ex = rnd_exons(a, b + 1, rnd.randint(1, 4))
                        if rnd.random() < .04 and len(ex) > 1: ex = ex[::-1]
                        ms.append(dict(chr=chr_id, strand=rnd.choice("+-"), tid="N%d" % k[0], gene=g, known=False, exons=ex, other=[]))
                calls.append((dict(chr=chr_id, regions={g: regions[g] for g in genes if rnd.random() < .8}, empty=(not genes) or rnd.random() < .1), ms))
            chroms.append(dict(chr=chr_id, ref=ref if has_ref else None, calls=calls, gi_ext=dict(chr=chr_id, regions=regions, empty=not has_ref)))
        allg = set(); 
        for ch in chroms:
            allg.update(ch["gi_ext"]["regions"]); allg.update(m["gene"] for m in (ch["ref"] or []))
            for gi, ms in ch["calls"]: allg.update(gi["regions"]); allg.update(m["gene"] for m in ms)
        genec = Codes(allg); chrc = Codes(); tidc = Codes()
        for ch in chroms: chrc(ch["chr"])
        # the workers
        for ch in chroms:
            name = "%s_%s" % (label, ch["chr"])
            p1 = GFFPrinter(sub, name, FakeIds(), output_r2t=False)
            p2 = GFFPrinter(sub, name, FakeIds(), gtf_suffix=".extended_annotation.gtf", output_r2t=False)
            novel = []
            for gi, ms in ch["calls"]:
                p1.dump(FakeGI(gi["chr"], gi["regions"], gi["empty"]), [tm(m) for m in ms])
                novel += [m for m in ms if not m["known"]]
            ge = ch["gi_ext"]
            p2.dump(FakeGI(ge["chr"], ge["regions"], ge["empty"]), [tm(m) for m in (ch["ref"] or []) + novel])
            p1.out_gff.close(); p2.out_gff.close()
        files = []
        for suffix in (".transcript_models.gtf", ".extended_annotation.gtf"):
            fname = os.path.join(sub, label + suffix)
            with open(fname, "w") as out:
                merge_files(fname, label, [ch["chr"] for ch in chroms], out, copy_header=False)
            files.append(open(fname).read())
        shutil.rmtree(sub, ignore_errors=True)
        mfile = parse_gtf_lines(files[0], chrc, genec, tidc); efile = parse_gtf_lines(files[1], chrc, genec, tidc)
        def cgi(gi): return "(mkG %s %s %s)" % (cz(chrc(gi["chr"])), cbool(gi["empty"]), clist(sorted(gi["regions"].items()), lambda kv: "(%s,%s)" % (cz(genec(kv[0])), civ(kv[1])), "(Z*(Z*Z))"))
        def ciso(m): return "(mkI %s %s %s %s %s)" % (cz(tidc(m["tid"])), cz(genec(m["gene"])), cz(STRAND[m["strand"]]), civs(m["exons"]), clist(m["other"], cf3, "(Z*Z*Z)"))
        def cchrom(ch):
            calls = clist(ch["calls"], lambda c: "(%s, %s)" % (cgi(c[0]), clist(c[1], lambda m: cmodel(m, chrc, genec, tidc), "tmodel")), "(ginfo * list tmodel)")
            ref = "None" if ch["ref"] is None else "(Some (mkRef %s %s))" % (cz(chrc(ch["chr"])), clist(ch["ref"], ciso, "refiso"))
            return "(mkC %s %s %s %s)" % (cstr_bytes(os.path.join(sub, "%s_%s" % (label, ch["chr"]))), calls, ref, cgi(ch["gi_ext"]))
        term = "(%s, (%s, %s))" % (clist(chroms, cchrom, "chrom"), clist(mfile, cline, "line"), clist(efile, cline, "line"))
        two_calls = any(len(set(ci for ci, (gi, ms) in enumerate(ch["calls"]) for m in ms if m["gene"] == g)) > 1 for ch in chroms for g in allg)
        cases.append((term, dict(chr_ids=[ch["chr"] for ch in chroms], chromosomes=chroms, models_file=files[0].splitlines(), extended_file=files[1].splitlines(), gene_in_two_calls=two_calls)))
    # the recorded finding (a gene processed in two regions) as a fixed world, then random worlds
    def finding(chr_id):
        known = dict(chr=chr_id, strand="+", tid="R1", gene="BIG", known=True, exons=[(10001, 10300), (12001, 12300), (14001, 14500)], other=[])
        late = dict(chr=chr_id, strand="+", tid="N2", gene="BIG", known=False, exons=[(70001, 70300), (72001, 72300), (79501, 81000)], other=[])
        gi = dict(chr=chr_id, regions={"BIG": (10001, 80000)}, empty=False)
        return dict(chr=chr_id, ref=[known], calls=[(gi, [known]), (gi, [late])], gi_ext=gi)
    world(0, dict(chr_ids=["chrA"], make=finding))
    for it in range(1, 120 if quick else 1200): world(it)
    shutil.rmtree(d, ignore_errors=True)
    ctx.rule("files: 1-4 chromosomes (names with digits, dots, underscores, mixed case), per chromosome REAL GFFPrinter pairs (models printer: 0-3 dump calls with known and novel models, genes recurring across calls, novel models reaching beyond the annotated range, rare unsorted exon lists; extended printer: one dump of reference + novel models) and REAL merge_files(copy_header=False); both merged files parsed back; first case = the two-region gene of finding #24; non-trivial = some gene has models in two calls")
    mism, viol = ctx.corr("files", PRE_FILES, cases, shard=20, nontrivial=lambda o: o["gene_in_two_calls"], ctype="T")
    ctx.corr_report("files", mism, viol)


PRE_EXT = """From IQ Require Import Exons Gff.
Open Scope Z_scope.
Definition f3_eqb (a b:f3) : bool := let '(a1,a2,a3) := a in let '(b1,b2,b3) := b in (a1 =? b1) && (a2 =? b2) && (a3 =? b3).
Definition tm_eqb (a b:tmodel) : bool :=
  (t_chr a =? t_chr b) && (t_strand a =? t_strand b) && (t_id a =? t_id b) && (t_gene a =? t_gene b) && Bool.eqb (t_known a) (t_known b)
  && ivl_eqb (t_exons a) (t_exons b) && list_eqb f3_eqb (isort f3_leb (t_other a)) (isort f3_leb (t_other b)).
(* input: chromosome, ground-truth isoforms (generator order; None = no gene on the chromosome), order in which the implementation's
   GeneInfo lists them, novel models; output: the implementation's list *)
Definition T := ((Z * option (list refiso) * list Z * list tmodel) * list tmodel)%type.
Definition reorder (l:list refiso) (order:list Z) : list refiso := flat_map (fun i => match ifind i l with Some x => [x] | None => [] end) order.
Definition check (c:T) : bool :=
  let '(chr, ri, order, novel) := fst c in
  list_eqb tm_eqb (create_extended_storage (match ri with Some l => Some (mkRef chr (reorder l order)) | None => None end) novel) (snd c).
(* every annotated transcript exactly once and verbatim (exons, strand, gene, known), followed by exactly the novel models *)
Definition prop (c:T) : bool :=
  let '(chr, ri, order, novel) := fst c in
  let refs := match ri with Some l => l | None => [] end in
  Nat.eqb (length (snd c)) (length refs + length novel) &&
  forallb (fun i => Nat.eqb (length (filter (fun m => tm_eqb m (model_of_iso chr i)) (snd c))) 1) refs &&
  list_eqb tm_eqb (skipn (length refs) (snd c)) novel.
"""

def gen_annotation(rnd, chroms=("cA", "cB", "cC"), L=20000):
    """ground truth: genes[chr] = list of dict(id, strand, range, transcripts=[dict(id, exons, other)])"""
    ann = {}; n = 0
    for c in chroms:
        genes = []; pos = rnd.randint(50, 400)
        for g in range(rnd.choice([0, 1, 2, 3, 5]) if c != chroms[0] else rnd.randint(1, 5)):
            n += 1; gid = "GENE%03d.%d" % (rnd.randint(0, 999), n); strand = rnd.choice("+-")
            pool = []; p = pos
            for i in range(rnd.randint(1, 7)):
                ln = rnd.randint(10, 300); pool.append((p, p + ln - 1)); p += ln + rnd.randint(30, 500)
            trs = []
            for t in range(rnd.choice([0, 1, 1, 2, 3, 4])):
                keep = sorted(rnd.sample(range(len(pool)), rnd.randint(1, len(pool))))
                ex = [pool[i] for i in keep]
                if rnd.random() < .3: ex[0] = (ex[0][0] + rnd.randint(0, 5), ex[0][1])
                other = []
                if rnd.random() < .5:
                    for e in ex:
                        if rnd.random() < .6: other.append((rnd.randint(e[0], e[1]), e[1], "CDS"))
                    other.append((ex[0][0], min(ex[0][0] + 2, ex[0][1]), "start_codon" if strand == "+" else "stop_codon"))
                    if rnd.random() < .5: other.append((ex[-1][0], ex[-1][1], "UTR"))
                trs.append(dict(id="%s.T%d" % (gid, t), exons=ex if rnd.random() > .04 else [], other=other))
            if p + 200 > L: break
            hull = (min([e[0] for t in trs for e in t["exons"]] + [pool[0][0]]), max([e[1] for t in trs for e in t["exons"]] + [pool[-1][1]]))
            if rnd.random() < .3: hull = (max(1, hull[0] - rnd.randint(0, 50)), hull[1] + rnd.randint(0, 50))
            genes.append(dict(id=gid, strand=strand, range=hull, transcripts=trs))
            pos = rnd.choice([pool[-1][1] - 100, pool[-1][1] + rnd.randint(50, 900), pool[0][0] + 5])     # overlapping and nested genes too
            pos = max(1, pos)
        ann[c] = genes
    return ann

def write_annotation(ann, path):
    with open(path, "w") as f:
        for c, genes in ann.items():
            for g in genes:
                f.write('%s\tsyn\tgene\t%d\t%d\t.\t%s\t.\tgene_id "%s"; gene_name "N%s";\n' % (c, g["range"][0], g["range"][1], g["strand"], g["id"], g["id"]))
                for t in g["transcripts"]:
                    ex = t["exons"]; rg = (ex[0][0], ex[-1][1]) if ex else g["range"]
                    f.write('%s\tsyn\ttranscript\t%d\t%d\t.\t%s\t.\tgene_id "%s"; transcript_id "%s"; tag "basic";\n' % (c, rg[0], rg[1], g["strand"], g["id"], t["id"]))
                    feats = [(a, b, "exon") for a, b in ex] + list(t["other"])
                    for a, b, ty in feats:
                        f.write('%s\tsyn\t%s\t%d\t%d\t.\t%s\t.\tgene_id "%s"; transcript_id "%s";\n' % (c, ty, a, b, g["strand"], g["id"], t["id"]))

def run_extended_unit(ctx, quick):
    import gffutils
    from src.transcript_printer import create_extended_storage, GFFPrinter
    from src.gene_info import TranscriptModel, TranscriptModelType
    rnd = section_rnd(ctx, "extended"); cases = []; dcases = []
    d = tempfile.mkdtemp(prefix="c03ext_", dir=ctx.scratch)
    for it in range(40 if quick else 400):
        ann = gen_annotation(rnd); gtf = os.path.join(d, "a%d.gtf" % it); write_annotation(ann, gtf)
        db = gffutils.create_db(gtf, ":memory:", force=True, keep_order=True, merge_strategy='error', sort_attribute_values=True,
                                disable_infer_transcripts=True, disable_infer_genes=True)
        allg = [g["id"] for c in ann for g in ann[c]] + ["novel_gene_%s_%d" % (c, i) for c in ann for i in range(6)]
        for c in ann:
            genec = Codes(allg); tidc = Codes(); chrc = Codes()
            novel = []
            for k in range(rnd.randint(0, 4)):
                n = rnd.randint(1, 4); cs = sorted(rnd.sample(range(1, 19000), 2 * n)); ex = [(cs[2 * i], cs[2 * i + 1]) for i in range(n)]
                gene = rnd.choice([g["id"] for g in ann[c]] + ["novel_gene_%s_%d" % (c, k)])
                strand = next((g["strand"] for g in ann[c] if g["id"] == gene), rnd.choice("+-"))
                novel.append(dict(chr=c, strand=strand, tid="transcript%d.%s.nnic" % (k, c), gene=gene, known=False, exons=ex, other=[]))
            tms = [TranscriptModel(m["chr"], m["strand"], m["tid"], m["gene"], list(m["exons"]), TranscriptModelType.novel_not_in_catalog) for m in novel]
            all_models, gi = create_extended_storage(db, c, "N" * 20000, tms)
            impl = [model_dict(m) for m in all_models]
            order = list(gi.all_isoforms_exons.keys())
            truth = [dict(id=t["id"], gene=g["id"], strand=g["strand"], exons=t["exons"], other=t["other"]) for g in ann[c] for t in g["transcripts"] if t["exons"]]
            ciso = lambda i: "(mkI %s %s %s %s %s)" % (cz(tidc(i["id"])), cz(genec(i["gene"])), cz(STRAND[i["strand"]]), civs(i["exons"]), clist(i["other"], cf3))
            ri = "(Some %s)" % clist(truth, ciso) if ann[c] else "(@None (list refiso))"
            term = "((%s, %s, %s, %s), %s)" % (cz(chrc(c)), ri, czs([tidc(x) for x in order]), clist(novel, lambda m: cmodel(m, chrc, genec, tidc), "tmodel"),
                                               clist(impl, lambda m: cmodel(m, chrc, genec, tidc), "tmodel"))
            cases.append((term, dict(annotation=ann[c], chr=c, novel=novel, impl=impl)))
            # the extended-annotation dump of this chromosome through the real GeneInfo and a real printer
            pr = GFFPrinter(d, "x%d_%s" % (it, c), FakeIds(), gtf_suffix=".extended_annotation.gtf", output_r2t=False)
            try:
                pr.dump(gi, all_models); pr.out_gff.flush()
                lines = parse_gtf_lines(open(pr.model_fname).read(), chrc, genec, tidc)
                out = "(Ok (%s, %s))" % (czs(sorted(genec(g) for g in pr.printed_gene_ids)), clist(lines, cline, "line")); im = dict(lines=open(pr.model_fname).read().splitlines())
            except (IndexError, AssertionError) as e:
                out = "(@Raises (list Z * list line) %d)" % (1 if isinstance(e, IndexError) else 2); im = type(e).__name__
            pr.out_gff.close(); os.remove(pr.model_fname)
            has_exons = any(t["exons"] for g in ann[c] for t in g["transcripts"])
            inp = "((%s, (mkG %s %s %s)), %s)" % ("(@nil Z)", cz(chrc(c)), cbool(not has_exons), clist([(g["id"], g["range"]) for g in ann[c]], lambda kv: "(%s,%s)" % (cz(genec(kv[0])), civ(kv[1]))),
                                                 clist(impl, lambda m: cmodel(m, chrc, genec, tidc), "tmodel"))
            dcases.append(("(%s, %s)" % (inp, out), dict(annotation=ann[c], chr=c, models=impl, impl=im)))
    shutil.rmtree(d, ignore_errors=True)
    ctx.rule("create_extended_storage on real gffutils databases (created like gtf2db --complete_genedb) from generated annotations: 3 chromosomes (one possibly without genes), overlapping/nested genes, genes without transcripts, transcripts without exons, CDS/UTR/codon features, gene lines wider than their transcripts, 0-4 novel models attributed to reference or new genes; then the real GFFPrinter.dump of the result through the real GeneInfo; ground truth from the generator, only the isoform order is taken from the implementation")
    mism, viol = ctx.corr("create_extended_storage", PRE_EXT, cases, shard=30, nontrivial=lambda o: len(o["impl"]) > len(o["novel"]))
    ctx.corr_report("create_extended_storage", mism, viol)
    mism, viol = ctx.corr("dump_extended", PRE_DUMP, dcases, shard=30, nontrivial=lambda o: isinstance(o["impl"], dict) and len(o["impl"]["lines"]) > 0)
    ctx.corr_report("dump_extended", mism, viol)

WRAPPER = r'''# tracing wrapper around isoquant.py for the C03 check: logs the inputs and outputs of the anchored functions (no behaviour change)
import sys, os, json, runpy
REPO = os.environ["C03_REPO"]; TRACE = os.environ["C03_TRACE"]
sys.path.insert(0, REPO)
def emit(obj):
    with open(os.path.join(TRACE, "trace_%d.jsonl" % os.getpid()), "a") as f:
        f.write(json.dumps(obj) + "\n")
import src.transcript_printer as tp
import src.graph_based_model_construction as gb
import src.dataset_processor as dp
from src.gene_info import TranscriptModelType

def md(m):
    return dict(chr=m.chr_id, strand=m.strand, tid=m.transcript_id, gene=m.gene_id, known=m.transcript_type == TranscriptModelType.known,
                exons=[list(e) for e in m.exon_blocks], other=[list(f) for f in m.other_features])
SEQ = [0]
def nxt():
    SEQ[0] += 1; return SEQ[0]

_dump = tp.GFFPrinter.dump
def dump(self, gene_info, storage):
    rec = dict(ev="dump", seq=nxt(), printer=self.model_fname, printed_before=sorted(self.printed_gene_ids), chr=gene_info.chr_id, empty=bool(gene_info.empty()),
               regions={k: list(v) for k, v in gene_info.get_gene_regions().items()}, models=[md(m) for m in storage] if storage else [], exc=None)
    self.out_gff.flush(); pos = os.path.getsize(self.model_fname)
    try:
        return _dump(self, gene_info, storage)
    except BaseException as e:
        rec["exc"] = type(e).__name__; raise
    finally:
        self.out_gff.flush()
        with open(self.model_fname) as f:
            f.seek(pos); rec["text"] = f.read()
        rec["printed_after"] = sorted(self.printed_gene_ids)
        emit(rec)
tp.GFFPrinter.dump = dump

_ends = gb.GraphBasedModelConstructor.correct_novel_transcript_ends
def ends(self, model, reads):
    rec = dict(ev="ends", seq=nxt(), apa=self.params.apa_delta, tid=model.transcript_id, known=model.transcript_type == TranscriptModelType.known,
               before=[list(e) for e in model.exon_blocks], reads=[[a.corrected_exons[0][0], a.corrected_exons[-1][1]] for a in reads])
    r = _ends(self, model, reads)
    rec["after"] = [list(e) for e in model.exon_blocks]; emit(rec); return r
gb.GraphBasedModelConstructor.correct_novel_transcript_ends = ends

_get_exons = gb.get_exons
def get_exons(region, introns):
    r = _get_exons(region, introns)
    emit(dict(ev="get_exons", seq=nxt(), region=list(region), introns=[list(i) for i in introns], out=[list(e) for e in r])); return r
gb.get_exons = get_exons

class Joiner(gb.TranscriptToGeneJoiner):
    def __init__(self, storage, gene_info):
        gi = gene_info
        self._rec = dict(ev="join", seq=nxt(), genes=[[g, gi.gene_strands[g], list(gi.get_gene_regions()[g])] for g in gi.gene_strands],
                         trs=[[t, g, [list(i) for i in gi.all_isoforms_introns[t]]] for t, g in gi.gene_id_map.items() if t in gi.all_isoforms_introns],
                         trs_without_exons=[t for t in gi.gene_id_map if t not in gi.all_isoforms_introns],
                         models=[md(m) for m in storage], scores=[], exc=None)
        try:
            gb_TranscriptToGeneJoiner_init(self, storage, gene_info)
        except BaseException as e:
            self._rec["exc"] = type(e).__name__; emit(self._rec); raise
    def count_score(self, a, b):
        v = gb_TranscriptToGeneJoiner_count_score(self, a, b); self._rec["scores"].append(v); return v
    def join_transcripts(self):
        try:
            r = gb_TranscriptToGeneJoiner_join(self)
            self._rec["out_genes"] = [m.gene_id for m in r]
            self._rec["regions"] = {g: [self.gene_strands[g], list(self.gene_regions[g])] for g in self.gene_regions}
            return r
        except BaseException as e:
            self._rec["exc"] = type(e).__name__; raise
        finally:
            emit(self._rec)
gb_TranscriptToGeneJoiner_init = gb.TranscriptToGeneJoiner.__init__
gb_TranscriptToGeneJoiner_count_score = gb.TranscriptToGeneJoiner.count_score
gb_TranscriptToGeneJoiner_join = gb.TranscriptToGeneJoiner.join_transcripts
gb.TranscriptToGeneJoiner = Joiner

_ces = tp.create_extended_storage
def ces(genedb, chr_id, chr_record, novel):
    before = [md(m) for m in novel]
    all_models, gi = _ces(genedb, chr_id, chr_record, novel)
    emit(dict(ev="extended", seq=nxt(), chr=chr_id, chr_len=len(chr_record), novel=before, all=[md(m) for m in all_models], order=list(gi.all_isoforms_exons.keys()),
              has_genes=bool(getattr(gi, "gene_db_list", []))))
    return all_models, gi
tp.create_extended_storage = ces; dp.create_extended_storage = ces

sys.argv[0] = os.path.join(REPO, "isoquant.py")
runpy.run_path(sys.argv[0], run_name="__main__")
'''


PRE_FILE = PRE_DUMP.replace("Definition T :=", "Definition T0 :=").replace("Definition check (c:T)", "Definition check0 (c:T0)").replace("Definition hyp (c:T)", "Definition hyp0 (c:T0)").replace("Definition prop (c:T)", "Definition prop0 (c:T0)").replace("negb (hyp c)", "negb (hyp0 c)") + """
(* a whole output file predicted from the traced dump calls: per-chromosome parts (name, calls of that printer in order),
   merged in the natural order of the part names *)
Definition T := (list (list Z * list (ginfo * list tmodel)) * list line)%type.
Definition file_model (parts:list (list Z * list (ginfo * list tmodel))) : list line :=
  flat_map (fun p => match dumps [] (snd p) with Ok (_, ls) => ls | Raises _ => [] end)
           (isort (fun a b => key_leb (nat_key (fst a)) (nat_key (fst b))) parts).
Definition check (c:T) : bool := list_eqb line_eqb (file_model (fst c)) (snd c).
(* every gene record at most once per chromosome in the whole file *)
Definition prop (c:T) : bool :=
  nodup_z (flat_map (fun l => match l with GeneL c _ _ _ g _ => [c * 1000000 + g] | _ => [] end) (snd c)).
"""

PRE_GTF = """From IQ Require Import Exons Gff.
Open Scope Z_scope.
(* (chromosome length, transcript, gene lines with its gene id, reference record if its id is a reference id) *)
Definition T := ((Z * trec * list (Z*Z*iv)) * option (Z*Z*Z*list iv))%type.
Definition check (c:T) : bool := true.
Definition prop (c:T) : bool := let '(len, t, genes) := fst c in gtf_tr_ok len t genes (snd c).
"""
PRE_GTF_CLASSIFY = PRE_GTF.replace("gtf_tr_ok len t genes (snd c)", "tr_wf len t && gene_wf_but_containment t genes && ref_verbatim t (snd c)")

PRE_EXTOK = """From IQ Require Import Exons Gff.
Open Scope Z_scope.
Definition T := (list xrec * list xrec * list xrec)%type.
Definition check (c:T) : bool := true.
Definition prop (c:T) : bool := let '(r, n, e) := c in extended_ok r n e.
"""


def read_reference(gtf_path):
    """input annotation with everything the check needs: genes {gid: (chr, s, e, strand)}, transcripts {tid: dict(chr, strand, gene, exons sorted, other)}"""
    import pipeline as P
    genes = collections.OrderedDict(); tr = collections.OrderedDict()
    for l in P.opn(gtf_path):
        if l.startswith("#") or not l.strip(): continue
        v = l.rstrip("\n").split("\t"); a = dict(re.findall(r'(\S+) "([^"]*)"', v[8]))
        if v[2] == "gene": genes[a["gene_id"]] = (v[0], int(v[3]), int(v[4]), v[6])
        elif v[2] in ("transcript", "mRNA"): tr.setdefault(a["transcript_id"], dict(chr=v[0], strand=v[6], gene=a["gene_id"], exons=[], other=[]))
        elif v[2] == "exon": tr.setdefault(a["transcript_id"], dict(chr=v[0], strand=v[6], gene=a["gene_id"], exons=[], other=[]))["exons"].append((int(v[3]), int(v[4])))
        elif v[2] in FT and "transcript_id" in a: tr.setdefault(a["transcript_id"], dict(chr=v[0], strand=v[6], gene=a["gene_id"], exons=[], other=[]))["other"].append((int(v[3]), int(v[4]), v[2]))
    for t in tr.values(): t["exons"].sort()
    return genes, tr


def rename_world(w, mapping):
    w.chroms = {mapping[c]: s for c, s in w.chroms.items()}
    for g in w.genes: g["chr"] = mapping[g["chr"]]
    for r in w.reads: r["chr"] = mapping[r["chr"]]
    for name, l in w.truth.items():
        for t in l: t["chr"] = mapping[t["chr"]]

def make_world(seed):
    """4 chromosomes with natural-order-sensitive names: two ordinary ones, one annotated but without reads, one with reads but without annotation"""
    from gen_data import World
    w = World(seed, n_chr=4, chr_len=(30000, 60000), genes_per_chr=(2, 4))
    w.reads_from_annotation(per_isoform=5); w.novel_reads(per_gene=6)
    # extra novel material: reads skipping one internal exon, reads extending the last exon beyond the annotated gene end
    n = 0
    for g in w.genes:
        pool = g["pool"]
        if len(pool) >= 5:
            chain = [pool[i] for i in range(len(pool)) if i != 2]
            for k in range(5): n += 1; w.add_read("skip_%s_%d" % (g["id"], n), g["chr"], chain, g["strand"])
        if len(pool) >= 3 and len(w.chroms[g["chr"]]) > pool[-1][1] + 700 and pool[0][0] > 700:
            ext = list(pool[:-1]) + [(pool[-1][0], pool[-1][1] + 450)] if g["strand"] == "+" else [(pool[0][0] - 450, pool[0][1])] + list(pool[1:])
            if len(ext) > 3: ext = [ext[0]] + ext[2:]
            for k in range(5): n += 1; w.add_read("ext_%s_%d" % (g["id"], n), g["chr"], ext, g["strand"])
    w.reads = [r for r in w.reads if r["chr"] != "chrC"]
    w.genes = [g for g in w.genes if g["chr"] != "chrD"]
    rename_world(w, {"chrA": "chr10", "chrB": "chr2", "chrC": "chrX", "chrD": "chr1"})
    return w

def two_region_world(seed=5):
    """finding #24: one 70-kb gene whose reads fall into two processing regions; the later region yields a novel transcript reaching 1 kb beyond the gene"""
    from gen_data import World
    w = World(seed, n_chr=1, chr_len=(100000, 100000), genes_per_chr=(0, 0))
    c = "chrA"; s = list(w.chroms[c]); w.chroms[c] = s
    pool = [(10001, 10300), (12001, 12300), (14001, 14500), (70001, 70300), (72001, 72300), (75001, 75300), (79501, 80000)]
    g = dict(id="chrA_BIG", chr=c, strand="+", pool=pool, isoforms={"chrA_BIG.T0": [0, 1, 2], "chrA_BIG.T1": [3, 4, 5, 6]}, start=10001, end=80000)
    for ix in g["isoforms"].values(): w.plant([pool[i] for i in ix], c, "+")
    novel = [pool[3], pool[4], (79501, 81000)]
    w.plant(novel, c, "+")
    w.chroms[c] = "".join(s); w.genes.append(g)
    for i in range(8): w.add_read("known_%d" % i, c, [pool[0], pool[1], pool[2]], "+")
    for i in range(8): w.add_read("late_%d" % i, c, novel, "+")
    return w


def traced_run(job):
    """job: dict(name, dir, bams, fasta, gtf, args); returns job + rc, log, events, out dir"""
    import pipeline as P
    d = job["dir"]; tr = os.path.join(d, "trace_" + job["name"]); os.makedirs(tr, exist_ok=True)
    out = os.path.join(d, "out_" + job["name"])
    args = ["--bam"] + job["bams"] + ["--reference", job["fasta"], "-p", "OUT"] + (["--genedb", job["gtf"], "--complete_genedb"] if job["gtf"] else []) + job["args"]
    rc, log = P.run_isoquant(out, args, wrapper=job["wrapper"], env_extra=dict(C03_REPO=REPO, C03_TRACE=tr), timeout=900)
    ev = []
    for f in sorted(os.listdir(tr)):
        pid = f.split("_")[1].split(".")[0]
        for l in open(os.path.join(tr, f)):
            e = json.loads(l); e["pid"] = pid; ev.append(e)
    return dict(job, rc=rc, log=log, events=ev, out=out)


def run_pipeline(ctx, quick):
    import pipeline as P
    from concurrent.futures import ThreadPoolExecutor
    rnd = section_rnd(ctx, "pipeline")
    d = P.scratch("c03pipe_")
    try:
        wrapper = os.path.join(d, "c03_wrapper.py"); open(wrapper, "w").write(WRAPPER)
        jobs = []
        b = P.bundled(os.path.join(d, "bundled"))
        DT = {"reliable": "nanopore", "default_pacbio": "pacbio_ccs", "sensitive_pacbio": "pacbio_ccs", "fl_pacbio": "pacbio_ccs", "default_ont": "nanopore",
              "sensitive_ont": "nanopore", "all": "nanopore", "assembly": "assembly"}
        def job(name, inp, gtf, args): jobs.append(dict(name=name, dir=d, bams=inp["bams"], fasta=inp["fasta"], gtf=inp["gtf"] if gtf else None, args=args, wrapper=wrapper, input=inp["label"]))
        binp = dict(bams=[b["bam"]], fasta=b["fasta"], gtf=b["gtf"], label="bundled chr9.4M ONT")
        for st, dt in DT.items(): job("bundled_%s" % st, binp, True, ["--data_type", dt, "--model_construction_strategy", st, "-t", "1"])
        job("bundled_nogenedb", binp, False, ["--data_type", "nanopore", "-t", "1"])
        job("bundled_nogenedb_all", binp, False, ["--data_type", "nanopore", "--model_construction_strategy", "all", "--report_novel_unspliced", "true", "-t", "1"])
        job("bundled_unspliced", binp, True, ["--data_type", "nanopore", "--report_novel_unspliced", "true", "--report_canonical", "all", "-t", "1"])
        job("bundled_nomodel", binp, True, ["--data_type", "nanopore", "--no_model_construction", "-t", "1"])
        seeds = [ctx.seed * 100 + i for i in range(2 if quick else 10)]
        for sd in seeds:
            w = make_world(sd); wd = os.path.join(d, "world%d" % sd); paths = w.write(wd)
            inp = dict(bams=paths, fasta=os.path.join(wd, "genome.fa"), gtf=os.path.join(wd, "annotation.gtf"), label="World(seed=%d) renamed chr10/chr2/chrX/chr1" % sd)
            presets = list(DT) if not quick else rnd.sample(list(DT), 2)
            for st in presets: job("world%d_%s" % (sd, st), inp, True, ["--data_type", DT[st], "--model_construction_strategy", st, "-t", rnd.choice(["1", "3"])])
            job("world%d_nogenedb" % sd, inp, False, ["--data_type", "nanopore", "--model_construction_strategy", rnd.choice(["default_ont", "sensitive_ont", "all"]), "-t", "2"])
        # an annotation holding a transcript record without exons (GeneInfo tolerates it with a warning)
        from gen_data import World
        w = World(3, n_chr=1, chr_len=(40000, 50000), genes_per_chr=(2, 3)); w.reads_from_annotation(per_isoform=5); w.novel_reads(per_gene=6)
        wd = os.path.join(d, "noexons"); paths = w.write(wd); g = w.genes[0]
        with open(os.path.join(wd, "annotation.gtf"), "a") as f:
            f.write('%s\tsyn\ttranscript\t%d\t%d\t.\t%s\t.\tgene_id "%s"; transcript_id "%s.EMPTY";\n' % (g["chr"], g["start"], g["end"], g["strand"], g["id"], g["id"]))
        job("noexons", dict(bams=paths, fasta=os.path.join(wd, "genome.fa"), gtf=os.path.join(wd, "annotation.gtf"), label="World(seed=3, n_chr=1) + a transcript line without exons in gene %s" % g["id"]), True,
            ["--data_type", "nanopore", "-t", "1"])
        w = two_region_world(); wd = os.path.join(d, "tworegion"); paths = w.write(wd)
        job("tworegion", dict(bams=paths, fasta=os.path.join(wd, "genome.fa"), gtf=os.path.join(wd, "annotation.gtf"), label="two_region_world(): 70-kb gene, reads in two processing regions"), True,
            ["--data_type", "nanopore", "-t", "1"])
        with ThreadPoolExecutor(8) as ex: results = list(ex.map(traced_run, jobs))
        ctx.cov["pipeline_runs"] += len(results)
        analyse_runs(ctx, results, quick)
    finally:
        shutil.rmtree(d, ignore_errors=True)


def analyse_runs(ctx, results, quick):
    import pipeline as P
    dump_cases = []; ends_cases = []; ge_cases = []; join_cases = []; ext_cases = []; file_cases = []; gtf_cases = []; extok_cases = []
    stats = collections.Counter()
    for r in results:
        name = r["name"]; replay = dict(run=name, input=r["input"], args=r["args"], genedb=bool(r["gtf"]))
        if r["rc"] != 0:
            key = None; m = re.search(r"KeyError: '([^']+)'", r["log"])
            if m and r["gtf"] and "all_isoforms_introns[transcript_id]" in r["log"]:
                rt = read_reference(r["gtf"])[1]
                if m.group(1) in rt and not rt[m.group(1)]["exons"]: key = NOEXON_KEY
            ctx.violation(key, "isoquant.py exits with %d%s" % (r["rc"], " (TranscriptToGeneJoiner: KeyError on a transcript record without exons)" if key else ""), dict(replay, log=r["log"][-1500:])); continue
        ev = r["events"]
        if "--no_model_construction" in r["args"]:
            # VoidTranscriptPrinter: nothing is dumped, no annotation is written
            if any(e["ev"] == "dump" for e in ev) or P.find(r["out"], "OUT", "transcript_models.gtf") or P.find(r["out"], "OUT", "extended_annotation.gtf"):
                ctx.violation(None, "--no_model_construction still writes an annotation", replay)
            stats["runs_without_model_construction"] += 1; continue
        fasta_len = P.fasta_lengths(r["fasta"])
        ref_genes, ref_tr = read_reference(r["gtf"]) if r["gtf"] else ({}, {})
        ref_tr_ok = {t: v for t, v in ref_tr.items() if v["exons"] and v["chr"] in fasta_len}
        # ---- traced calls
        for e in ev:
            if e["ev"] == "dump":
                genec = Codes(list(e["regions"]) + [m["gene"] for m in e["models"]] + e["printed_before"] + e["printed_after"]); chrc = Codes(); tidc = Codes(); chrc(e["chr"])
                if e["exc"] in ("IndexError", "AssertionError"): out = "(@Raises (list Z * list line) %d)" % (1 if e["exc"] == "IndexError" else 2)
                elif e["exc"]:
                    ctx.violation(None, "GFFPrinter.dump raises %s in a pipeline run" % e["exc"], dict(replay, models=e["models"])); continue
                else: out = "(Ok (%s, %s))" % (czs(sorted(genec(g) for g in e["printed_after"])), clist(parse_gtf_lines(e["text"], chrc, genec, tidc), cline, "line"))
                ms = [dict(m, exons=[tuple(x) for x in m["exons"]], other=[tuple(x) for x in m["other"]]) for m in e["models"]]
                inp = "((%s, (mkG %s %s %s)), %s)" % (czs(sorted(genec(g) for g in e["printed_before"])), cz(chrc(e["chr"])), cbool(e["empty"]),
                                                     clist(sorted(e["regions"].items()), lambda kv: "(%s,%s)" % (cz(genec(kv[0])), civ(kv[1]))), clist(ms, lambda m: cmodel(m, chrc, genec, tidc), "tmodel"))
                dump_cases.append(("(%s, %s)" % (inp, out), dict(replay, printer=os.path.basename(e["printer"]), call=e["seq"], models=e["models"], regions=e["regions"], printed_before=e["printed_before"], impl=e["text"].splitlines()[:50])))
            elif e["ev"] == "ends":
                if e["known"]: ctx.violation(None, "correct_novel_transcript_ends applied to a known model", dict(replay, transcript=e["tid"]))
                ex = [tuple(x) for x in e["before"]]; rd = [tuple(x) for x in e["reads"]]; af = [tuple(x) for x in e["after"]]
                ends_cases.append(("((%s, %s, %s), %s)" % (cz(e["apa"]), civs(ex), civs(rd), civs(af)), dict(replay, transcript=e["tid"], apa_delta=e["apa"], exons=ex, reads=rd, impl=af)))
                stats["ends_moved"] += ex != af
            elif e["ev"] == "get_exons":
                rg = tuple(e["region"]); ins = [tuple(x) for x in e["introns"]]; o = [tuple(x) for x in e["out"]]
                hyp = all(a <= b for a, b in ins) and all(x[0] <= y[0] for x, y in zip(ins, ins[1:])) and all(rg[0] - 1 <= i[0] <= rg[1] + 1 for i in ins) and rg[0] <= rg[1] + 2
                stats["get_exons_hyp_holds" if hyp else "get_exons_hyp_fails"] += 1
                ge_cases.append(("((%s, %s), %s)" % (civ(rg), civs(ins), civs(o)), dict(replay, region=rg, introns=ins, impl=o, hyp=hyp)))
            elif e["ev"] == "join":
                if e.get("trs_without_exons"): stats["join_transcripts_without_exons"] += 1
                if float_fragile(e["scores"]): stats["join_float_fragile_skipped"] += 1; continue
                genes = [(g, s, tuple(rg)) for g, s, rg in e["genes"]]; trs = [(t, g, [tuple(i) for i in ins]) for t, g, ins in e["trs"]]
                ms = [dict(m, exons=[tuple(x) for x in m["exons"]], other=[]) for m in e["models"]]
                exc = e["exc"]
                if exc not in (None, "AssertionError", "KeyError"):
                    ctx.violation(None, "TranscriptToGeneJoiner raises %s in a pipeline run" % exc, dict(replay, models=e["models"])); continue
                term = joiner_term(genes, trs, ms, True, e.get("out_genes"), {g: (v[0], tuple(v[1])) for g, v in (e.get("regions") or {}).items()}, exc)
                join_cases.append((term, dict(replay, ref_genes=genes, models=e["models"], impl=e.get("out_genes"), moved=e.get("out_genes") != [m["gene"] for m in e["models"]])))
            elif e["ev"] == "extended":
                c = e["chr"]; chrc = Codes(); tidc = Codes()
                truth = [dict(id=t, gene=v["gene"], strand=v["strand"], exons=v["exons"], other=v["other"]) for t, v in ref_tr.items() if v["chr"] == c and v["exons"]]
                has_genes = any(g[0] == c for g in ref_genes.values())
                genec = Codes([v["gene"] for v in ref_tr.values()] + [m["gene"] for m in e["all"]] + [m["gene"] for m in e["novel"]])
                ciso = lambda i: "(mkI %s %s %s %s %s)" % (cz(tidc(i["id"])), cz(genec(i["gene"])), cz(STRAND[i["strand"]]), civs(i["exons"]), clist(i["other"], cf3))
                fix = lambda m: dict(m, exons=[tuple(x) for x in m["exons"]], other=[tuple(x) for x in m["other"]])
                ri = "(Some %s)" % clist(truth, ciso) if has_genes else "(@None (list refiso))"
                term = "((%s, %s, %s, %s), %s)" % (cz(chrc(c)), ri, czs([tidc(x) for x in e["order"]]), clist([fix(m) for m in e["novel"]], lambda m: cmodel(m, chrc, genec, tidc), "tmodel"),
                                                   clist([fix(m) for m in e["all"]], lambda m: cmodel(m, chrc, genec, tidc), "tmodel"))
                ext_cases.append((term, dict(replay, chr=c, novel=[m["tid"] for m in e["novel"]], n_all=len(e["all"]), n_reference=len(truth))))
        # ---- whole files predicted from the traced calls, and the per-transcript / per-file specification
        files = {"transcript_models": P.find(r["out"], "OUT", "transcript_models.gtf")}
        if r["gtf"]: files["extended_annotation"] = P.find(r["out"], "OUT", "extended_annotation.gtf")
        elif P.find(r["out"], "OUT", "extended_annotation.gtf"): ctx.violation(None, "extended annotation written without --genedb", replay)
        parsed = {}
        emitted = {}           # (file, tid) -> (part, call seq); (file, 'gene', gid) -> (part, seq)
        for kind, path in files.items():
            if not path:
                ctx.violation(None, "%s.gtf missing" % kind, replay); continue
            text = open(path).read(); lines = text.splitlines()
            nh = 0
            while nh < len(lines) and lines[nh].startswith("#"): nh += 1
            if any(l.startswith("#") or len(l.split("\t")) != 9 for l in lines[nh:]) or (text and not text.endswith("\n")):
                ctx.violation(None, "%s.gtf: header line inside the body, or a line without 9 columns" % kind, replay)
            allg = set(); parts = collections.OrderedDict()
            for e in ev:
                if e["ev"] == "dump" and e["printer"].endswith(kind + ".gtf"):
                    parts.setdefault(e["printer"], []).append(e); allg.update(e["regions"]); allg.update(m["gene"] for m in e["models"])
                    for l in e["text"].splitlines():
                        v = l.split("\t"); a = dict(re.findall(r'(\S+) "([^"]*)"', v[8]))
                        if v[2] == "gene": emitted.setdefault((kind, "gene", a["gene_id"], v[0]), (e["printer"], e["seq"]))
                        elif v[2] == "transcript": emitted.setdefault((kind, a["transcript_id"]), (e["printer"], e["seq"]))
            genec = Codes(allg); chrc = Codes(); tidc = Codes()
            cparts = []
            for pn, evs in parts.items():
                evs.sort(key=lambda e: e["seq"])
                fix = lambda m: dict(m, exons=[tuple(x) for x in m["exons"]], other=[tuple(x) for x in m["other"]])
                cparts.append("(%s, %s)" % (cstr_bytes(pn), clist(evs, lambda e: "((mkG %s %s %s), %s)" % (cz(chrc(e["chr"])), cbool(e["empty"]),
                              clist(sorted(e["regions"].items()), lambda kv: "(%s,%s)" % (cz(genec(kv[0])), civ(kv[1]))), clist([fix(m) for m in e["models"]], lambda m: cmodel(m, chrc, genec, tidc), "tmodel")))))
            try:
                flines = parse_gtf_lines(text, chrc, genec, tidc)
                if cparts: file_cases.append(("(%s, %s)" % (clist(cparts), clist(flines, cline, "line")), dict(replay, file=kind, parts=[os.path.basename(x) for x in parts], n_lines=len(flines))))
            except (AssertionError, KeyError, ValueError) as x:
                ctx.violation(None, "%s.gtf contains an identifier or feature that no traced dump call produced (%s)" % (kind, x), replay)
            tr, genes = P.read_gtf(path); parsed[kind] = tr
            chrc = Codes(); genec = Codes(); 
            for tid, t in tr.items():
                gl = genes.get(t["gene"], [])
                rf = ref_tr.get(tid)
                ref = "(@None (Z*Z*Z*list (Z*Z)))" if rf is None else "(Some (%s,%s,%s,%s))" % (cz(chrc(rf["chr"])), cz(STRAND[rf["strand"]]), cz(genec(rf["gene"])), civs(rf["exons"]))
                consistent = t["exon_strands"] <= {t["strand"]}
                line = t["line"] if t["line"] is not None and consistent else (0, -1)
                term = "((%s, (mkX %s %s %s %s %s %s), %s), %s)" % (cz(fasta_len.get(t["chr"], 0)), cz(chrc(t["chr"])), cz(STRAND.get(t["strand"], 9)), cz(genec(t["gene"])), cz(t["n_lines"]),
                                                                   civ(line), civs(t["printed_order"]), clist(gl, lambda g: "(%s,%s,%s)" % (cz(chrc(g[0])), cz(STRAND.get(g[3], 9)), civ((g[1], g[2]))), "(Z*Z*(Z*Z))"), ref)
                te = emitted.get((kind, tid)); ge = emitted.get((kind, "gene", t["gene"], t["chr"]))
                gtf_cases.append((term, dict(replay, file=kind, transcript=tid, gene=t["gene"], transcript_line=t["line"], exons=t["exons"], gene_lines=[g[:4] for g in gl], reference=rf,
                                             emitted_in_call=te, gene_line_from_call=ge, later_region=bool(te and ge and te[0] == ge[0] and te[1] > ge[1]), _term=term)))
        if r["gtf"] and len(parsed) == 2:
            chrc = Codes(); tidc = Codes()
            rec = lambda tid, t: "(%s,%s,%s,%s)" % (cz(tidc(tid)), cz(chrc(t["chr"])), cz(STRAND.get(t["strand"], 9)), civs(t["exons"]))
            novel = [(tid, t) for tid, t in parsed["transcript_models"].items() if tid not in ref_tr]
            term = "(%s, %s, %s)" % (clist(list(ref_tr_ok.items()), lambda x: rec(*x)) if ref_tr_ok else "(@nil (Z*Z*Z*list (Z*Z)))", clist(novel, lambda x: rec(*x)) if novel else "(@nil (Z*Z*Z*list (Z*Z)))",
                                     clist(list(parsed["extended_annotation"].items()), lambda x: rec(*x)) if parsed["extended_annotation"] else "(@nil (Z*Z*Z*list (Z*Z)))")
            ext_ids = set(parsed["extended_annotation"])
            extok_cases.append((term, dict(replay, n_reference=len(ref_tr_ok), n_novel=len(novel), n_extended=len(ext_ids),
                                           reference_missing=[t for t in ref_tr_ok if t not in ext_ids][:5], novel_missing=[t for t, _ in novel if t not in ext_ids][:5],
                                           unexpected=[t for t in ext_ids if t not in ref_tr_ok and t not in dict(novel)][:5])))
            stats["novel_transcripts"] += len(novel); stats["known_reported"] += len(parsed["transcript_models"]) - len(novel)
        elif not r["gtf"] and "transcript_models" in parsed: stats["novel_transcripts"] += len(parsed["transcript_models"])

    for name, pre, cases, nt, sh in (("pipeline:dump", PRE_DUMP, dump_cases, lambda o: len(o["impl"]) > 0, 40), ("pipeline:correct_novel_transcript_ends", PRE_ENDS, ends_cases, lambda o: o["impl"] != o["exons"], 400),
                                     ("pipeline:get_exons", PRE_GE, ge_cases, lambda o: o["hyp"], 400), ("pipeline:gene_joiner", PRE_JOIN, join_cases, lambda o: o["moved"], 60),
                                     ("pipeline:create_extended_storage", PRE_EXT, ext_cases, lambda o: o["n_reference"] > 0, 4), ("pipeline:whole_file", PRE_FILE, file_cases, None, 2)):
        mism, viol = ctx.corr(name, pre, cases, shard=sh, nontrivial=nt)
        for o in mism + viol: o.pop("_term", None)
        ctx.corr_report(name, mism, viol)
    # the specification on both output files
    mism, viol = ctx.corr("pipeline:gtf_wf", PRE_GTF, gtf_cases, shard=250, nontrivial=lambda o: True)
    rest_bad = set()
    if viol:
        _, v2 = ctx.corr("pipeline:gtf_wf(classification of violations)", PRE_GTF_CLASSIFY, [(o["_term"], o) for o in viol], shard=250)
        rest_bad = set(id(o) for o in v2)
    def key(o):
        # finding #24: only the containment clause fails (decided in Coq), in transcript_models.gtf, and the trace shows the transcript was
        # written by a later dump call of the same printer than the gene line
        return KNOWN_KEY if id(o) not in rest_bad and o["file"] == "transcript_models" and o["later_region"] else None
    keys = {id(o): key(o) for o in viol}
    for o in gtf_cases: o[1].pop("_term", None)
    ctx.corr_report("pipeline:gtf_wf", mism, viol, keyfn=lambda o: keys[id(o)], what="output GTF violates gtf_wf (per transcript: exons, transcript line, gene line, reference verbatim)")
    mism, viol = ctx.corr("pipeline:extended_is_reference_plus_novel", PRE_EXTOK, extok_cases, shard=1, nontrivial=lambda o: o["n_novel"] > 0)
    ctx.corr_report("pipeline:extended_is_reference_plus_novel", mism, viol, what="extended_annotation.gtf is not reference + novel transcripts of transcript_models.gtf")
    ctx.notes.append("pipeline: %d runs; %s" % (len(results), ", ".join("%s=%d" % kv for kv in sorted(stats.items()))))
    if stats["get_exons_hyp_fails"]:
        ctx.notes.append("get_exons was called %d times with an intron path outside the hypothesis of get_exons_wf (unordered or outside the transcript range); disjointness of those models rests on the output check only" % stats["get_exons_hyp_fails"])

def run(ctx):
    quick = ctx.tier == "quick"
    import logging, time
    logging.getLogger('IsoQuant').setLevel(logging.CRITICAL)
    ctx.prepare("C03.v")
    ctx.exhaustive = False
    for f in (run_dump_unit, run_ends_unit, run_joiner_unit, run_merge_unit, run_files_unit, run_extended_unit, run_pipeline):
        t0 = time.time()
        try: f(ctx, quick)
        except Exception:
            # a changed implementation may break an adapter (e.g. another type in the printer's bookkeeping): report it, and let the
            # remaining sections - in particular the output-file specification - still look for a concrete failing input
            import traceback
            ctx.broken("harness:%s" % f.__name__, "exception in this section of the check:\n" + traceback.format_exc()[-2500:])
        ctx.notes.append("%s: %.0f s" % (f.__name__, time.time() - t0))
    ctx.rule("pipeline: isoquant.py under a tracing wrapper (inputs/outputs of GFFPrinter.dump, correct_novel_transcript_ends, get_exons, TranscriptToGeneJoiner, create_extended_storage are logged, behaviour unchanged) on the bundled chr9 data with each of the 8 --model_construction_strategy presets, without --genedb, with --report_novel_unspliced/--report_canonical all; on generated worlds (4 chromosomes named chr10/chr2/chrX/chr1: two ordinary, one annotated without reads, one with reads but no annotation; known, truncated, exon-skipping and gene-extending reads) with sampled presets, 1-3 threads, with and without --genedb; and on the two-region gene of finding #24. Every traced call is replayed through the model; each whole output file is predicted by the model from the traced calls (dumps per part, parts in natural name order); gtf_tr_ok is evaluated in Coq for every transcript of both GTFs against the input GTF and the FASTA lengths, extended_ok per run")
    ctx.notes.append("decided inside Coq: model = implementation for every unit and traced call, whole-file prediction, per-transcript gtf_tr_ok (>= 1 exon, exons strictly increasing and disjoint after sorting, printed order by coordinate (descending allowed on '-'), 1 <= start <= end <= chromosome length, transcript line = hull and unique, exactly one gene line with its gene id, same chromosome and strand, containing it, reference ids verbatim), extended_ok. "
                     "Python side (search support only): parsing GTF/FASTA text into records, joining a transcript with the gene lines carrying its gene id and with the input annotation by id, grouping trace events by printer, the 9-column / header-position sanity check, the float-fragility screen of joiner scores, statistics. "
                     "The `transcripts \"n\"` attribute of gene lines is modelled and corresponded (dump) but not part of the property; exon_id / exon_number attributes beyond the number are left to C17.")
    ctx.assume.append("GTF/FASTA parsers of harness/pipeline.py and the record printers of this check; gffutils (reference database: order of genes/transcripts, children); float arithmetic of the joiner scores agrees with exact fractions except within 1e-9 (screened per case, skipped cases are counted)")
    ctx.assume.append("input annotation is well-formed (its own exons disjoint and positive, chromosomes present in the FASTA); chromosome and identifier strings are ASCII")


SECTIONS = {"dump": run_dump_unit, "validate_exons": run_dump_unit, "correct_novel_transcript_ends": run_ends_unit, "get_exons": run_ends_unit, "gene_joiner": run_joiner_unit,
            "merge_files": run_merge_unit, "files": run_files_unit, "create_extended_storage": run_extended_unit, "dump_extended": run_extended_unit}

def replay(ctx, rep):
    """re-run only the section that produced the replay file (sections are seeded independently, so the same cases are regenerated)"""
    import logging
    logging.getLogger('IsoQuant').setLevel(logging.CRITICAL)
    r = rep.get("replay") or {}
    name = r.get("correspondence") or ""
    if not name and rep.get("no_longer_checks"):
        name = next((x.split("correspondence:", 1)[1] for x in rep["no_longer_checks"] if x.startswith("correspondence:")), "")
    if not name and not (r.get("run") or (r.get("case") or {}).get("run")):
        return run(ctx)
    ctx.prepare("C03.v")
    SECTIONS.get(name, run_pipeline)(ctx, ctx.tier == "quick")
