"""C13 — exon/intron inclusion and exclusion counts equal a recount from the alignments.

Run as a script (python c13.py <isoquant args>) this file is the trace wrapper of the pipeline level: it runs the unmodified isoquant.py of
$VERIF_REPO with AlignmentInfo.construct_profiles wrapped by a logger (read id, exons after polyA trimming, external polyA/polyT positions,
delta, the gene profiles the real constructors returned).  Active only under ABLAB_ISOQUANT_VERIF=1; nothing in the repository is touched."""
import os, sys, json

if __name__ == "__main__":
    import runpy
    REPO = os.environ.get("VERIF_REPO", "/repo")
    if os.environ.get("ABLAB_ISOQUANT_VERIF") != "1":
        sys.stderr.write("c13 wrapper: ABLAB_ISOQUANT_VERIF=1 is required\n"); sys.exit(2)
    sys.path.insert(0, REPO)
    TRACE = os.environ["C13_TRACE"]; _fh = {}
    def _out():
        pid = os.getpid()
        if pid not in _fh: _fh[pid] = open("%s.%d" % (TRACE, pid), "a")
        return _fh[pid]
    from src import alignment_info as _ai
    _orig = _ai.AlignmentInfo.construct_profiles
    def construct_profiles(self, profile_constructor):
        res = _orig(self, profile_constructor)
        try:
            gi = profile_constructor.gene_info; cp = self.combined_profile; p = profile_constructor.params
            rec = dict(read_id=self.alignment.query_name, chr=gi.chr_id, exons=[[int(a), int(b)] for a, b in self.read_exons],
                       polya=int(self.polya_info.external_polya_pos), polyt=int(self.polya_info.external_polyt_pos),
                       delta=int(p.delta), absd=int(p.minimal_intron_absence_overlap), gene_region=[int(gi.start), int(gi.end)],
                       genes=[g.id for g in gi.gene_db_list],
                       exon_profile=None if cp.read_exon_profile is None else [int(x) for x in cp.read_exon_profile.gene_profile],
                       intron_profile=[int(x) for x in cp.read_intron_profile.gene_profile])
            f = _out(); f.write(json.dumps(rec) + "\n"); f.flush()
        except Exception as e:                      # logging never changes the behaviour
            f = _out(); f.write(json.dumps(dict(log_error=repr(e))) + "\n"); f.flush()
        return res
    _ai.AlignmentInfo.construct_profiles = construct_profiles
    script = os.path.join(REPO, "isoquant.py")
    sys.argv = [script] + sys.argv[1:]
    runpy.run_path(script, run_name="__main__")
    sys.exit(0)

import itertools, shutil, tempfile, types, glob, collections
from functools import partial
from lib import *

THIS = os.path.abspath(__file__)
import traceback

class ImplError(Exception):
    """the real code raised (or returned something unusable) on a well-formed input: becomes a violation carrying the input"""
    def __init__(self, what, replay): Exception.__init__(self, what); self.what = what; self.replay = replay

def guarded(ctx, cases, f, *a):
    try:
        cases.append(f(*a))
    except ImplError as e:
        ctx.violation(None, e.what, e.replay)

def atype_names():
    from src.isoform_assignment import ReadAssignmentType
    return [m.name for m in ReadAssignmentType]
PRESETS = {"exact": 0, "precise": 4, "default": 6, "loose": 12}      # documented --matching_strategy -> delta
ABSD = 20                                                            # minimal_intron_absence_overlap (set_matching_options)

# ---------------------------------------------------------------------------------------------- Coq printers
class Codes:
    """order-preserving interning of strings (sorted() on the names = zsort on the codes)"""
    def __init__(self, names): self.m = {n: i + 1 for i, n in enumerate(sorted(set(names)))}
    def __call__(self, n): return self.m[n]
def zl(l): return "(@nil Z)" if not l else czs(l)
def ivl(l): return "(@nil (Z*Z))" if not l else civs([(int(a), int(b)) for a, b in l])
def tl(items, f, ty): return "(@nil (%s))" % ty if not items else clist(items, f)
def cchars(s): return zl([ord(c) for c in s])
def cfi(f, chrc, genec): return "(mkfi %s %s %s %s %s %s %s)" % (cz(f["id"]), cz(chrc(f["chr"])), cz(f["start"]), cz(f["end"]), cchars(f["strand"]), cchars(f["flags"]), zl([genec(g) for g in f["genes"]]))
def crow(r, chrc, genec, grpc):
    return "((((((%s, %s), %s), %s), %s), %s), %s, %s, %s)" % (cz(chrc(r["chr"])), cz(r["start"]), cz(r["end"]), cchars(r["strand"]), cchars(r["flags"]), zl([genec(g) for g in r["genes"]]),
                                                             cz(grpc(r["group"])), cz(r["incl"]), cz(r["excl"]))
ROWT = "frow * Z * Z * Z"

def parse_count_file(path):
    import pipeline as P
    rows = []
    for l in P.opn(path):
        if l.startswith("#") or not l.strip(): continue
        v = l.rstrip("\n").split("\t")
        rows.append(dict(chr=v[0], start=int(v[1]), end=int(v[2]), strand=v[3], flags=v[4], genes=[g for g in v[5].split(",") if g != ""], group=v[6], incl=int(v[7]), excl=int(v[8])))
    return rows

PRE = """From IQ.gen Require Import Prims.
From IQ Require Import Intervals IntervalsSpec FeatureCounts.
Open Scope Z_scope.
Definition frow_x (a b:frow) : bool := let '(c1, s1, e1, st1, f1, g1) := a in let '(c2, s2, e2, st2, f2, g2) := b in
  (c1 =? c2) && (s1 =? s2) && (e1 =? e2) && zs_eqb st1 st2 && zs_eqb f1 f2 && zs_eqb g1 g2.
Definition row4_eqb (a b:frow * Z * Z * Z) : bool := let '(r1, g1, i1, e1) := a in let '(r2, g2, i2, e2) := b in frow_x r1 r2 && (g1 =? g2) && (i1 =? i2) && (e1 =? e2).
Definition kd_of (z:Z) : kind := if z =? 0 then Exon else Intron.
"""

# ---------------------------------------------------------------------------------------------- 1. the counter classes
PRE_COUNTER = PRE + """
(* ((kind, ignore_read_groups, NA), property maps per gene_info, assignments, dumped file or None = IndexError) *)
Definition asg := option (option (list Z) * option (list Z) * option Z * Z).
Definition T := ((Z * bool * Z) * list (list finfo * list finfo) * list asg * option (list (frow * Z * Z * Z)))%type.
Definition mk_asg (maps:list (list finfo * list finfo)) (a:asg) : option assignment :=
  match a with None => None | Some (ep, ip, gi, g) => Some (mka ep ip (match gi with Some i => Some (nth (Z.to_nat i) maps ([], [])) | None => None end) g) end.
Definition asgs_of (c:T) := let '(cfg, maps, asgs, _) := c in map (mk_asg maps) asgs.
Definition model (c:T) := let '(cfg, maps, asgs, _) := c in let '(kd, ignore, na) := cfg in
  match run_counter (kd_of kd) ignore na (asgs_of c) with Some st => Some (dump st) | None => None end.
Definition check (c:T) := opt_eqb (list_eqb row4_eqb) (model c) (snd c).
(* specification by direct counting: per (line text, group) the dumped lines add up to the number of (read, position) pairs with +1 / -1 on a feature
   carrying that text; no zero lines; every line is the text of a feature of some property map; IndexError exactly when a +-1 lies beyond the map *)
Definition beyond (cl:call) : bool := let '(prof, pm, _) := cl in existsb (fun v => (v =? 1) || (v =? -1)) (skipn (length pm) prof).
Definition sum_x (rows:list (frow * Z * Z * Z)) (row:frow) (g:Z) : Z * Z :=
  fold_left (fun acc r => let '(fr, g', i, e) := r in if frow_x fr row && (g' =? g) then (fst acc + i, snd acc + e) else acc) rows (0, 0).
Definition prop (c:T) := let '(cfg, maps, asgs, impl) := c in let '(kd, ignore, na) := cfg in
  let calls := effective_calls (kd_of kd) ignore na (asgs_of c) in
  let feats := flat_map (fun m => match kd_of kd with Exon => fst m | Intron => snd m end) maps in
  let groups := zset (map (fun cl => snd cl) calls) in
  match impl with
  | None => existsb beyond calls
  | Some rows =>
    negb (existsb beyond calls) &&
    forallb (fun r => let '(fr, g, i, e) := r in ((0 <? i) || (0 <? e)) && existsb (fun f => frow_x (row_of f) fr) feats && existsb (Z.eqb g) groups) rows &&
    forallb (fun f => forallb (fun g =>
       let ids := zset (map fi_id (filter (fun f' => frow_x (row_of f') (row_of f)) feats)) in
       pair_eqb Z.eqb Z.eqb (sum_x rows (row_of f) g) (zsum (map (fun x => tally 1 calls x g) ids), zsum (map (fun x => tally (-1) calls x g) ids))) groups) feats &&
    (* one line per (feature id, group) with a non-zero tally *)
    (Z.of_nat (length rows) =? zsum (map (fun x => zsum (map (fun g => if (0 <? tally 1 calls x g) || (0 <? tally (-1) calls x g) then 1 else 0) groups)) (zset (map fi_id feats))))
  end.
"""

def counter_case(kd, ignore, maps, asgs, workdir):
    """maps: list of (exon finfo dicts, intron finfo dicts); asgs: None | dict(ep, ip, gi (index or None), group, drop=attribute to delete)"""
    from src.long_read_counter import ExonCounter, IntronCounter
    from src.gene_info import FeatureInfo
    def obj(f):
        o = FeatureInfo(f["chr"], f["start"], f["end"], f["strand"], f["flags"], list(f["genes"])); o.id = f["id"]; return o
    gis = [types.SimpleNamespace(exon_property_map=[obj(f) for f in em], intron_property_map=[obj(f) for f in im]) for em, im in maps]
    d = tempfile.mkdtemp(dir=workdir)
    c = (ExonCounter if kd == 0 else IntronCounter)(os.path.join(d, "x"), ignore_read_groups=ignore)
    from src.isoform_assignment import ReadAssignmentType
    impl = "ok"
    try:
        for a in asgs:
            if a is None: c.add_read_info(None); continue
            # the counters must treat every processed read alike: the assignment type (any member of the real enum) is carried but is not part of the model
            ra = types.SimpleNamespace(exon_gene_profile=a["ep"], intron_gene_profile=a["ip"], gene_info=None if a["gi"] is None else gis[a["gi"]], read_group=a["group"],
                                       assignment_type=ReadAssignmentType[a["atype"]] if a.get("atype") else None, read_id="r")
            if a.get("drop"): delattr(ra, a["drop"])
            c.add_read_info(ra)
        c.dump()
        rows = parse_count_file(c.output_counts_file_name)
    except IndexError:
        impl = None; rows = None
    except Exception as e:
        shutil.rmtree(d, ignore_errors=True)
        raise ImplError("%s raises %s on a well-formed stream of read assignments" % (["ExonCounter", "IntronCounter"][kd], type(e).__name__),
                        dict(kind=["exon", "intron"][kd], ignore_read_groups=ignore, property_maps=maps, assignments=asgs, error=traceback.format_exc()[-800:]))
    shutil.rmtree(d, ignore_errors=True)
    chrc = Codes([f["chr"] for m in maps for l in m for f in l] + ["chr1"]); genec = Codes([g for m in maps for l in m for f in l for g in f["genes"]] + ["g"])
    grpc = Codes([a["group"] for a in asgs if a] + ["NA"])
    def casg(a):
        if a is None: return "None"
        ep = None if a.get("drop") == "exon_gene_profile" else a["ep"]; ip = None if a.get("drop") == "intron_gene_profile" else a["ip"]
        gi = None if a.get("drop") == "gene_info" else a["gi"]
        return "(Some (%s, %s, %s, %s))" % (copt(ep, zl), copt(ip, zl), copt(gi, cz), cz(grpc(a["group"])))
    term = "(((%d, %s, %s), %s, %s), %s)" % (kd, cbool(ignore), cz(grpc("NA")),
            tl(maps, lambda m: "(%s, %s)" % (tl(m[0], lambda f: cfi(f, chrc, genec), "finfo"), tl(m[1], lambda f: cfi(f, chrc, genec), "finfo")), "list finfo * list finfo"),
            tl(asgs, casg, "asg"), copt(rows, lambda rs: tl(rs, lambda r: crow(r, chrc, genec, grpc), ROWT)))
    return term, dict(kind=["exon", "intron"][kd], ignore_read_groups=ignore, property_maps=maps, assignments=asgs, dumped=rows)

def counters(ctx, quick):
    rnd = ctx.rnd; work = tempfile.mkdtemp(prefix="iqv_c13u_"); cases = []
    nid = [1000]
    def feat(chr_, s, e, strand="+", flags="IU", genes=("g1",)):
        nid[0] += 1; return dict(id=nid[0], chr=chr_, start=s, end=e, strand=strand, flags=flags, genes=list(genes))
    try:
        # exhaustive: one gene_info with two exons and one intron; every sequence of <= 2 reads over profiles in {1,-1,0,-2}^2 x 2 groups (+ None), both counters, both group modes
        em = [feat("chr1", 10, 20, "+", "XU", ["g1"]), feat("chr1", 30, 40, "+-", "TSM", ["g2", "g1"])]; im = [feat("chr1", 21, 29, "+", "I", ["g1"])]
        profs2 = [list(p) for p in itertools.product([1, -1, 0, -2], repeat=2)]
        AT = atype_names()
        atoms = [None] + [dict(ep=p, ip=[p[0]], gi=0, group=g, atype=AT[(i + k) % len(AT)]) for i, p in enumerate(profs2) for k, g in enumerate(("NA", "b"))]
        seqs = [[a] for a in atoms] + [[a, b] for a in atoms for b in atoms]
        if quick: seqs = seqs[:len(atoms)] + rnd.sample(seqs[len(atoms):], 500)
        for s in seqs:
            for kd in (0, 1):
                for ignore in (True, False):
                    if quick and rnd.random() < .5: continue
                    guarded(ctx, cases, counter_case, kd, ignore, [(em, im)], s, work)
        # random: several gene_infos (a feature of the annotation present in two of them = two ids with one text), profiles of every length, invalid assignments
        for it in range(700 if quick else 6000):
            maps = []
            for gi in range(rnd.randint(1, 3)):
                ne = rnd.randint(0, 5); ni = rnd.randint(0, 4)
                em = [feat("chr%d" % rnd.randint(1, 2), 100 * k + rnd.randint(0, 3), 100 * k + 50, rnd.choice(["+", "-", "+-"]), rnd.choice(["X", "IU", "TSC", "ICM"]), rnd.sample(["g1", "g2", "g10", "G3"], rnd.randint(1, 3))) for k in range(ne)]
                im = [feat("chr1", 100 * k + 51, 100 * k + 99, rnd.choice(["+", "-"]), rnd.choice(["I", "XU"]), ["g1"]) for k in range(ni)]
                if maps and rnd.random() < .5:
                    for f in rnd.sample(maps[0][0], min(len(maps[0][0]), 2)): em.append(dict(f, id=nid[0] + 1)); nid[0] += 1      # the same annotated exon seen from another region
                if maps and rnd.random() < .1 and maps[0][0]: em.append(dict(rnd.choice(maps[0][0])))                               # even the same id
                maps.append((em, im))
            asgs = []
            for r in range(rnd.randint(0, 12)):
                if rnd.random() < .06: asgs.append(None); continue
                gi = rnd.randrange(len(maps)); em, im = maps[gi]
                def prof(n):
                    L = n if rnd.random() < .8 else max(0, n + rnd.choice([-2, -1, 1, 2]))
                    return [rnd.choice([1, 1, -1, -1, 0, -2]) for _ in range(L)]
                a = dict(ep=prof(len(em)), ip=prof(len(im)), gi=gi, group=rnd.choice(["NA", "a", "b", "G10", "G9"]), atype=rnd.choice(AT))
                x = rnd.random()
                if x < .03: a["ep"] = None
                elif x < .06: a["ip"] = None
                elif x < .09: a["gi"] = None
                elif x < .12: a["drop"] = rnd.choice(["exon_gene_profile", "intron_gene_profile", "gene_info"])
                asgs.append(a)
            guarded(ctx, cases, counter_case, rnd.randint(0, 1), rnd.random() < .5, maps, asgs, work)
    finally:
        shutil.rmtree(work, ignore_errors=True)
    ctx.rule("counters: the real ExonCounter / IntronCounter objects (add_read_info + dump into a file, parsed back): every sequence of <= 2 reads over all profiles in {1,-1,0,-2}^2 x 2 groups "
             "(sampled in the quick tier) + random sequences of 0-12 reads over 1-3 gene_infos (an annotated feature present in two gene_infos under two ids, shared ids, profiles shorter "
             "and longer than the property map, None / missing attributes, None assignments), grouped and ignore_read_groups; non-trivial = a line is printed")
    mism, viol = ctx.corr("counters", PRE_COUNTER, cases, shard=150, nontrivial=lambda o: bool(o["dumped"]), ctype="T")
    ctx.corr_report("counters", mism, viol, what="ExonCounter/IntronCounter: the dumped lines are not the tallies of the +1/-1 profile positions")

# ---------------------------------------------------------------------------------------------- 2. set_feature_properties
PRE_PROPS = PRE + """
(* ((delta, chr, id0), isoforms (gene, strand, features) in dict order, K) -> property map *)
Definition T := ((Z * Z * Z) * list isoform * list iv * list finfo)%type.
Definition fi_eqb (a b:finfo) : bool := (fi_id a =? fi_id b) && frow_x (row_of a) (row_of b).
Definition check (c:T) := let '(cfg, isos, K, impl) := c in let '(d, chr, id0) := cfg in list_eqb fi_eqb (feature_properties d chr isos id0 K) impl.
(* declarative re-statement, by positions: occurrences of k in an isoform are the indices j with feats[j] = k; terminal = first or last index *)
Definition occ (k:iv) (iso:isoform) : list (Z * Z * bool) :=
  let '(g, s, feats) := iso in let n := length feats in
  flat_map (fun j => if iv_eqb (nth j feats (0,0)) k
     then (if ((j =? 0) || (j =? n - 1))%nat then (if ((j =? 0) && (j =? n - 1) || negb (j =? 0) || negb (j =? n - 1))%nat then [(g, s, true)] else [(g, s, true)]) else [(g, s, false)]) else []) (seq 0 n).
Definition has (c:Z) (l:list Z) := existsb (Z.eqb c) l.
Definition prop (c:T) := let '(cfg, isos, K, impl) := c in let '(d, chr, id0) := cfg in
  (length impl =? length K)%nat &&
  forallb (fun x => let '(j, (k, p)) := x in
    let oc := flat_map (occ k) isos in
    (fi_id p =? id0 + Z.of_nat j + 1) && (fi_chr p =? chr) && (fi_start p =? fst k) && (fi_end p =? snd k) &&
    zs_eqb (fi_strand p) (zset (map (fun e => snd (fst e)) oc)) && zs_eqb (zset (fi_genes p)) (zset (map (fun e => fst (fst e)) oc)) &&
    (match fi_flags p with b :: rest =>
       (if forallb (fun e => snd e) oc then b =? ch_X else if existsb (fun e => snd e) oc then b =? ch_T else b =? ch_I) &&
       Bool.eqb (has ch_S rest) (existsb (fun k2 => negb (iv_eqb k k2) && (Z.abs (fst k - fst k2) <=? d) && (Z.abs (snd k - snd k2) <=? d)) K) &&
       Bool.eqb (has ch_C rest) (existsb (fun k2 => negb (iv_eqb k k2) && (fst k2 <=? fst k) && (snd k <=? snd k2)) K) &&
       Bool.eqb (has ch_U rest) (length oc =? 1)%nat &&
       Bool.eqb (has ch_M rest) (negb (length oc =? 1)%nat && (1 <? length (zset (map (fun e => fst (fst e)) oc)))%nat) &&
       forallb (fun ch => has ch [ch_S; ch_C; ch_U; ch_M]) rest
     | [] => false end)) (combine (seq 0 (length K)) (combine K impl)).
"""

def props_case(delta, isoforms, K, chr_="chr1", dup_edges=False):
    """isoforms: list of (tid, gene, strand, features)"""
    from src.gene_info import GeneInfo, FeatureInfo
    me = types.SimpleNamespace(delta=delta, chr_id=chr_, isoform_strands={t: s for t, g, s, f in isoforms}, gene_id_map={t: g for t, g, s, f in isoforms})
    id0 = FeatureInfo.feature_id_counter.value
    try:
        res = GeneInfo.set_feature_properties(me, collections.OrderedDict((t, list(f)) for t, g, s, f in isoforms), types.SimpleNamespace(features=list(K)))
        res = [(p.id, p.chr_id, int(p.start), int(p.end), str(p.strand), str(p.type), sorted(p.gene_ids)) for p in res]
    except Exception as e:
        raise ImplError("set_feature_properties raises %s" % type(e).__name__, dict(delta=delta, isoforms=isoforms, features=K, error=traceback.format_exc()[-800:]))
    genec = Codes([g for t, g, s, f in isoforms] + ["g"]); chrc = Codes([chr_])
    impl = [dict(id=p[0], chr=p[1], start=p[2], end=p[3], strand=p[4], flags=p[5], genes=p[6]) for p in res]
    term = "(((%d, %d, %d), %s, %s), %s)" % (delta, chrc(chr_), id0, tl(isoforms, lambda i: "((%s, %s), %s)" % (cz(genec(i[1])), cz(ord(i[2])), ivl(i[3])), "isoform"), ivl(K),
                                            tl(impl, lambda f: cfi(f, chrc, lambda g: genec(g)), "finfo"))
    return term, dict(delta=delta, isoforms=isoforms, features=K, impl=[(p["start"], p["end"], p["strand"], p["flags"], p["genes"]) for p in impl])

def sd_lists(U, maxn, lo=1):
    out = [[]]
    def rec(start, cur):
        if len(cur) == maxn: return
        for a in range(start, U + 1):
            for b in range(a, U + 1):
                nxt = cur + [(a, b)]; out.append(nxt); rec(b + 1, nxt)
    rec(lo, []); return out

def feature_properties(ctx, quick):
    from src.common import junctions_from_blocks
    rnd = ctx.rnd; cases = []
    # exhaustive: all pairs of isoforms (exon lists of <= 3 exons over 5 positions) x same/different gene x strands, delta 0/1, exons and introns
    L = [l for l in sd_lists(5, 3) if l]
    pairs = [(a, b) for a in L for b in L]
    if quick: pairs = rnd.sample(pairs, 700)
    for a, b in pairs:
        g2, s2 = rnd.choice([("g1", "+"), ("g2", "+"), ("g2", "-")])
        for kind in (0, 1):
            isos = [("t1", "g1", "+", a if kind == 0 else junctions_from_blocks(a)), ("t2", g2, s2, b if kind == 0 else junctions_from_blocks(b))]
            K = sorted(set(f for i in isos for f in i[3]))
            guarded(ctx, cases, props_case, rnd.choice([0, 1]), isos, K)
    for it in range(400 if quick else 5000):
        pts = sorted(rnd.sample(range(1, 400), rnd.randint(4, 14))); pool = [(pts[2 * i], pts[2 * i + 1]) for i in range(len(pts) // 2)]
        isos = []
        for t in range(rnd.randint(1, 5)):
            ex = sorted(set(rnd.sample(pool, rnd.randint(1, len(pool)))))
            if rnd.random() < .5:          # alternative sites: similar / contained variants
                i = rnd.randrange(len(ex)); a, b = ex[i]; sh = rnd.choice([1, 2, 5, 9]); ex[i] = (a, max(a, b - sh)) if rnd.random() < .5 else (min(b, a + sh), b)
            isos.append(("t%d" % t, rnd.choice(["gA", "gB", "g10"]), rnd.choice("+-"), ex))
        kind = it % 2
        if kind == 1: isos = [(t, g, s, junctions_from_blocks(f)) for t, g, s, f in isos]
        K = sorted(set(f for i in isos for f in i[3]))
        if rnd.random() < .1 and K: K = K + [K[0]]                       # not produced by the pipeline (features are a sorted set); the model follows anyway
        guarded(ctx, cases, props_case, rnd.choice([0, 2, 4, 6, 12]), isos, K)
    ctx.rule("set_feature_properties (real method on a stub GeneInfo): all pairs of isoforms with <= 3 exons over 5 positions (sampled in quick) as exon and as intron features, "
             "same / different gene and strand, delta 0-1 + random genes of 1-5 isoforms over a shared exon pool with alternative sites, 1-3 genes, both strands, delta 0-12; gene lists "
             "compared as sets; non-trivial = a feature flagged S, C or M")
    mism, viol = ctx.corr("feature_properties", PRE_PROPS, cases, shard=250, nontrivial=lambda o: any(set(p[3]) & set("SCM") for p in o["impl"]), ctype="T")
    ctx.corr_report("feature_properties", mism, viol, what="set_feature_properties: row i of the property map does not describe feature i / wrong flags, strands or genes")

# ---------------------------------------------------------------------------------------------- 3. constructors + counters on one gene cluster
PRE_GENE = PRE + """
(* ((delta, absd), isoforms, gene region, reads (group, blocks, polyA, polyT), (exon profiles, intron profiles) of the real constructors, (exon file, intron file)) *)
Definition rd := (Z * list iv * Z * Z)%type.
Definition T := ((Z * Z) * list isoform * iv * list rd * (list (list Z) * list (list Z)) * (list (frow * Z * Z * Z) * list (frow * Z * Z * Z)))%type.
Definition recs_of (reads:list rd) : list record := map (fun r => let '(g, b, pa, pt) := r in (1, g, b, pa, pt)) reads.
Definition one (kd:kind) (d absd:Z) (isos:list isoform) (gr:iv) (reads:list rd) (profs:list (list Z)) (rows:list (frow * Z * Z * Z)) : bool * bool :=
  let isos' := kind_isoforms kd isos in let K := exon_features isos' in
  (* model = implementation: the sweep model and the declarative per-feature value both give the real profile of every read *)
  (list_eqb (opt_eqb zs_eqb) (map (fun r => let '(g, b, pa, pt) := r in gene_profile kd d absd K gr b pa pt) reads) (map Some profs) &&
   list_eqb zs_eqb (map (fun r => let '(g, b, pa, pt) := r in map (rec_value kd d absd K b pa pt) K) reads) profs,
   feature_counts_ok kd d absd [(1, isos)] (recs_of reads) rows && rows_nodup rows).
Definition check (c:T) := let '(cfg, isos, gr, reads, profs, files) := c in
  fst (one Exon (fst cfg) (snd cfg) isos gr reads (fst profs) (fst files)) && fst (one Intron (fst cfg) (snd cfg) isos gr reads (snd profs) (snd files)).
Definition prop (c:T) := let '(cfg, isos, gr, reads, profs, files) := c in
  snd (one Exon (fst cfg) (snd cfg) isos gr reads (fst profs) (fst files)) && snd (one Intron (fst cfg) (snd cfg) isos gr reads (snd profs) (snd files)).
"""
PRE_CLEAN = PRE + """
(* the clean statement on the real profiles: include iff a read feature equals the known feature within delta (closest candidate);
   exclude iff not included and the feature lies in the read's interior (absence condition), strictly inside a gap of the read, or is a farther candidate of a read feature *)
Definition T := ((Z * Z * Z) * list iv * list iv * Z * Z * list Z)%type.      (* ((kind, delta, absd), K, blocks, polyA, polyT, real gene profile) *)
Definition prop (c:T) := let '(cfg, K, blocks, pa, pt, prof) := c in let '(kd, d, absd) := cfg in
  clean_profile_ok (kd_of kd) d absd K blocks pa pt prof.
Definition check (c:T) := true.
"""

def stub_gene_info(isoforms, delta, region=None):
    """what CombinedProfileConstructor and the counters read from a GeneInfo, built with the real GeneInfo methods"""
    from src.gene_info import GeneInfo, FeatureProfiles
    from src.common import junctions_from_blocks
    gi = GeneInfo.__new__(GeneInfo)
    gi.delta = delta; gi.chr_id = "chr1"
    gi.all_isoforms_exons = collections.OrderedDict((t, list(f)) for t, g, s, f in isoforms)
    gi.all_isoforms_introns = collections.OrderedDict((t, junctions_from_blocks(list(f))) for t, g, s, f in isoforms)
    gi.intron_profiles = FeatureProfiles(); gi.exon_profiles = FeatureProfiles(); gi.split_exon_profiles = FeatureProfiles()
    gi.intron_profiles.set_features(sorted(set(j for l in gi.all_isoforms_introns.values() for j in l)))
    gi.exon_profiles.set_features(sorted(set(e for l in gi.all_isoforms_exons.values() for e in l)))
    gi.split_exon_profiles.set_features(GeneInfo.split_exons(gi.exon_profiles.features))
    gi.start, gi.end = region or (min(f[0][0] for t, g, s, f in isoforms), max(f[-1][1] for t, g, s, f in isoforms))
    gi.isoform_strands = {t: s for t, g, s, f in isoforms}; gi.gene_id_map = {t: g for t, g, s, f in isoforms}
    gi.exon_property_map = gi.set_feature_properties(gi.all_isoforms_exons, gi.exon_profiles)
    gi.intron_property_map = gi.set_feature_properties(gi.all_isoforms_introns, gi.intron_profiles)
    return gi

def gene_case(delta, isoforms, reads, work, ignore):
    """reads: list of (group, blocks, polya, polyt).  Real CombinedProfileConstructor -> real ExonCounter/IntronCounter -> files."""
    from src.long_read_profiles import CombinedProfileConstructor
    from src.long_read_counter import ExonCounter, IntronCounter
    from src.isoform_assignment import ReadAssignmentType
    AT = list(ReadAssignmentType)
    d = tempfile.mkdtemp(dir=work)
    try:
        gi = stub_gene_info(isoforms, delta)
        params = types.SimpleNamespace(delta=delta, minimal_intron_absence_overlap=ABSD, minimal_exon_overlap=5, count_exons=True)
        cons = CombinedProfileConstructor(gi, params)
        ec = ExonCounter(os.path.join(d, "e"), ignore_read_groups=ignore); ic = IntronCounter(os.path.join(d, "i"), ignore_read_groups=ignore)
        eprofs = []; iprofs = []
        for n, (grp, blocks, pa, pt) in enumerate(reads):
            cp = cons.construct_profiles(list(blocks), types.SimpleNamespace(external_polya_pos=pa, external_polyt_pos=pt), [])
            # every processed read is counted, whatever its assignment type (all members of the real enum are used in turn)
            ra = types.SimpleNamespace(exon_gene_profile=cp.read_exon_profile.gene_profile, intron_gene_profile=cp.read_intron_profile.gene_profile, gene_info=gi, read_group=grp,
                                       assignment_type=AT[(n + len(blocks)) % len(AT)], read_id="r%d" % n)
            eprofs.append([int(x) for x in ra.exon_gene_profile]); iprofs.append([int(x) for x in ra.intron_gene_profile])
            ec.add_read_info(ra); ic.add_read_info(ra)
        ec.dump(); ic.dump()
        erows = parse_count_file(ec.output_counts_file_name); irows = parse_count_file(ic.output_counts_file_name)
    except Exception as e:
        raise ImplError("profile constructors / counters raise %s on a well-formed gene cluster" % type(e).__name__, dict(delta=delta, isoforms=isoforms, reads=reads, error=traceback.format_exc()[-800:]))
    finally:
        shutil.rmtree(d, ignore_errors=True)
    genec = Codes([g for t, g, s, f in isoforms]); chrc = lambda c: 1; grpc = Codes([r[0] for r in reads] + ["NA"])
    g_of = (lambda g: grpc("NA")) if ignore else grpc
    term = "(((((%s, %s), %s), %s), %s), (%s, %s))" % (
        "(%d, %d)" % (delta, ABSD), tl(isoforms, lambda i: "((%s, %s), %s)" % (cz(genec(i[1])), cz(ord(i[2])), ivl(i[3])), "isoform"), civ((gi.start, gi.end)),
        tl(reads, lambda r: "(((%s, %s), %s), %s)" % (cz(g_of(r[0])), ivl(r[1]), cz(r[2]), cz(r[3])), "rd"),
        "(%s, %s)" % (tl(eprofs, zl, "list Z"), tl(iprofs, zl, "list Z")),
        tl(erows, lambda r: crow(r, chrc, genec, grpc), ROWT), tl(irows, lambda r: crow(r, chrc, genec, grpc), ROWT))
    py = dict(delta=delta, isoforms=isoforms, reads=reads, ignore_read_groups=ignore, exon_features=gi.exon_profiles.features, intron_features=gi.intron_profiles.features,
              exon_profiles=eprofs, intron_profiles=iprofs, exon_rows=[(r["start"], r["end"], r["group"], r["incl"], r["excl"]) for r in erows],
              intron_rows=[(r["start"], r["end"], r["group"], r["incl"], r["excl"]) for r in irows])
    clean = []
    for (grp, blocks, pa, pt), ep, ip in zip(reads, eprofs, iprofs):
        for kd, K, prof in ((0, gi.exon_profiles.features, ep), (1, gi.intron_profiles.features, ip)):
            clean.append(("((((((%d, %d, %d), %s), %s), %s), %s), %s)" % (kd, delta, ABSD, ivl(K), ivl(blocks), cz(pa), cz(pt), zl(prof)),
                          dict(kind=["exon", "intron"][kd], delta=delta, known=K, read_blocks=blocks, polya=pa, polyt=pt, gene_profile=prof)))
    return (term, py), clean

def jitter_read(rnd, exons, amp):
    out = []
    for k, (a, b) in enumerate(exons):
        a2 = a + rnd.randint(-amp, amp); b2 = b + rnd.randint(-amp, amp)
        if a2 > b2: a2, b2 = b2, a2
        if out and a2 <= out[-1][1] + 1: a2 = out[-1][1] + 2
        if b2 < a2: b2 = a2
        out.append((a2, b2))
    return out

def gene_clusters(ctx, quick):
    rnd = ctx.rnd; work = tempfile.mkdtemp(prefix="iqv_c13g_"); cases = []; clean = []
    try:
        # exhaustive small domain: one or two isoforms over 7 positions x every read of <= 2 blocks, delta 0-2
        isolists = [l for l in sd_lists(7, 3) if l]
        reads_all = [l for l in sd_lists(7, 2) if l]
        combos = [(a, b) for a in isolists for b in [None] + isolists]
        for a, b in rnd.sample(combos, 500 if quick else 6000):
            isos = [("t1", "g1", "+", a)] + ([("t2", rnd.choice(["g1", "g2"]), rnd.choice("+-"), b)] if b else [])
            rs = [(rnd.choice(["NA", "a", "b"]), r, -1, -1) for r in rnd.sample(reads_all, 10)]
            try:
                c, cl = gene_case(rnd.choice([0, 1, 2]), isos, rs, work, rnd.random() < .5); cases.append(c); clean += cl
            except ImplError as e: ctx.violation(None, e.what, e.replay)
        # random gene clusters: shared pool, alternative sites, a second gene on the other strand sharing exons; reads = isoforms with jitter, skipped exons, retained introns, truncation, polyA/polyT
        for it in range(250 if quick else 3000):
            delta = rnd.choice([0, 4, 6, 12])
            n = rnd.randint(2, 7); pos = 1000; pool = []
            for i in range(n):
                ln = rnd.choice([rnd.randint(3, 12), rnd.randint(30, 200)]); pool.append((pos, pos + ln - 1)); pos += ln + rnd.choice([rnd.randint(2, 15), rnd.randint(60, 400)])
            isos = []
            for t in range(rnd.randint(1, 4)):
                keep = sorted(set([0, n - 1] + [i for i in range(1, n - 1) if rnd.random() < .7])) if rnd.random() < .7 else sorted(rnd.sample(range(n), rnd.randint(1, n)))
                ex = [pool[i] for i in keep]
                if rnd.random() < .5:
                    i = rnd.randrange(len(ex)); a, b = ex[i]; sh = rnd.choice([1, 2, 3, 5, 8, 14]); ex[i] = (a, max(a, b - sh)) if rnd.random() < .5 else (min(b, a + sh), b)
                isos.append(("t%d" % t, "gA" if t < 2 else rnd.choice(["gA", "gB"]), "+" if t < 2 else rnd.choice("+-"), ex))
            reads = []
            for r in range(rnd.randint(3, 10)):
                ex = list(rnd.choice(isos)[3]); kind = rnd.choice(["fl", "jit", "jit2", "skip", "retain", "trunc", "mono", "free"])
                if kind == "jit": ex = jitter_read(rnd, ex, max(1, delta))
                elif kind == "jit2": ex = jitter_read(rnd, ex, delta + 3)
                elif kind == "skip" and len(ex) > 2: del ex[rnd.randrange(1, len(ex) - 1)]
                elif kind == "retain" and len(ex) > 1:
                    i = rnd.randrange(len(ex) - 1); ex[i:i + 2] = [(ex[i][0], ex[i + 1][1])]
                elif kind == "trunc" and len(ex) > 1:
                    ex = ex[rnd.randint(0, 1):len(ex) - rnd.randint(0, 1)] or ex[:1]
                elif kind == "mono": a = rnd.randint(pool[0][0] - 20, pool[-1][1]); ex = [(a, a + rnd.randint(5, 300))]
                elif kind == "free":
                    pts = sorted(rnd.sample(range(pool[0][0] - 30, pool[-1][1] + 30), 2 * rnd.randint(1, 4))); ex = [(pts[2 * i], pts[2 * i + 1]) for i in range(len(pts) // 2)]
                    ex = [e for i, e in enumerate(ex) if i == 0 or e[0] > ex[i - 1][1] + 1]
                pa = rnd.choice([-1, -1, ex[-1][1], ex[-1][1] + rnd.randint(0, 20)]); pt = rnd.choice([-1, -1, -1, ex[0][0], max(1, ex[0][0] - rnd.randint(0, 20))])
                reads.append((rnd.choice(["NA", "zeta", "alpha", "G10", "G9"]), ex, pa, pt))
            try:
                c, cl = gene_case(delta, isos, reads, work, rnd.random() < .4); cases.append(c); clean += cl
            except ImplError as e: ctx.violation(None, e.what, e.replay)
    finally:
        shutil.rmtree(work, ignore_errors=True)
    ctx.rule("gene clusters (real CombinedProfileConstructor -> real ExonCounter/IntronCounter -> files): 1-2 isoforms of <= 3 exons over 7 positions x 10 reads of <= 2 blocks, delta 0-2 "
             "(sampled from the exhaustive product) + random clusters of 1-4 isoforms over a pool of 2-7 exons (short and long exons and introns, alternative sites, a second gene on "
             "either strand sharing exons) with 3-10 reads (full length, jitter within / beyond delta, skipped exon, retained intron, truncated, mono-exonic, free), polyA/polyT positions at or "
             "beyond the read ends, delta 0/4/6/12, grouped and ungrouped; check = sweep model and declarative per-feature value give the real profiles; prop = feature_counts_ok on the "
             "files; non-trivial = an include and an exclude count are printed")
    mism, viol = ctx.corr("gene_cluster_counts", PRE_GENE, cases, shard=60, nontrivial=lambda o: any(r[3] > 0 for r in o["exon_rows"]) and any(r[4] > 0 for r in o["exon_rows"] + o["intron_rows"]), ctype="T")
    ctx.corr_report("gene_cluster_counts", mism, viol, what="exon/intron count files of a gene cluster differ from the recount with the profile characterisation")
    def key_clean(o): return hyp_key(o["delta"], o["known"], o["read_blocks"], 0 if o["kind"] == "exon" else 1)
    seen = set(); uniq = []
    for c in clean:
        if c[0] not in seen: seen.add(c[0]); uniq.append(c)
    if quick and len(uniq) > 6000: uniq = rnd.sample(uniq, 6000)
    ctx.rule("clean statement on the same real profiles, one case per (read, feature list): include iff contained within delta, exclude iff spanned without being contained; "
             "violations are keyed by the failing hypothesis of the theorem (H2: consecutive read features more than delta apart; H1: features longer than delta); "
             "non-trivial = H1 and H2 hold and the profile has both a +1 and a -1")
    mism, viol = ctx.corr("clean_include_exclude", PRE_CLEAN, uniq, shard=500, nontrivial=lambda o: 1 in o["gene_profile"] and -1 in o["gene_profile"] and key_clean(o) is None, ctype="T")
    ctx.corr_report("clean_include_exclude", mism, viol, keyfn=key_clean, what="a real gene profile violates `include iff contained within delta / exclude iff spanned without containing`")

# ---------------------------------------------------------------------------------------------- 4. pipeline
PRE_PIPE = PRE + """
(* ((kind, delta, absd), annotation per chromosome, processed records, lines of the count file) *)
(* a record also carries the gene lists of the GeneInfo objects it was profiled with (several when its alignment fell into several sub-regions of a split cluster);
   the property (fco) ignores them *)
Definition T := ((Z * Z * Z) * list (Z * list isoform) * list (record * list (list Z)) * list (frow * Z * Z * Z))%type.
Definition fco (c:T) := let '(cfg, ann, recs, rows) := c in let '(kd, d, absd) := cfg in feature_counts_ok (kd_of kd) d absd ann (map fst recs) rows.
Definition fco_region (c:T) := let '(cfg, ann, recs, rows) := c in let '(kd, d, absd) := cfg in feature_counts_region_ok (kd_of kd) d absd ann recs rows.
"""

PRE_TRACE = PRE + """
(* ((kind, delta, absd), isoforms of the gene_info, gene region, read exons, polyA, polyT, gene profile returned inside the pipeline) *)
Definition T := ((Z * Z * Z) * list isoform * iv * list iv * Z * Z * list Z)%type.
Definition check (c:T) := let '(cfg, isos, gr, blocks, pa, pt, prof) := c in let '(kd, d, absd) := cfg in
  let K := exon_features (kind_isoforms (kd_of kd) isos) in
  zs_eqb (map (rec_value (kd_of kd) d absd K blocks pa pt) K) prof && opt_eqb zs_eqb (gene_profile (kd_of kd) d absd K gr blocks pa pt) (Some prof).
Definition prop (c:T) := let '(cfg, isos, gr, blocks, pa, pt, prof) := c in let '(kd, d, absd) := cfg in
  clean_profile_ok (kd_of kd) d absd (exon_features (kind_isoforms (kd_of kd) isos)) blocks pa pt prof.
"""

def hyp_key(delta, K, blocks, kind):
    R = blocks if kind == 0 else [(a[1] + 1, b[0] - 1) for a, b in zip(blocks, blocks[1:]) if a[1] + 1 < b[0]]
    h1 = all(k[1] - k[0] + 1 > delta for k in K); h2 = all(a[1] + delta < b[0] for a, b in zip(R, R[1:]))
    if not h2: return "C13:profile-shadowed-match"
    if not h1: return "C13:profile-short-feature"
    return None

def py_value(kd, d, absd, K, blocks, pa, pt, k):
    """mirror of FeatureCounts.rec_value, used only to describe a failing file (feature, reads) in its replay"""
    R = list(blocks) if kd == 0 else [(a[1] + 1, b[0] - 1) for a, b in zip(blocks, blocks[1:]) if a[1] + 1 < b[0]]
    m = (blocks[0][1] + d, blocks[-1][0] - d) if kd == 0 else (blocks[0][0], blocks[-1][1])
    if (pa != -1 and k[0] > pa + d) or (pt != -1 and k[1] < pt - d): return -2
    def absent(f):
        if kd == 0: return m[1] >= f[1] and m[0] <= f[0]
        o1 = m[1] - f[0]; o2 = f[1] - m[0]
        if o1 < 0 or o2 < 0: return False
        return (o1 >= absd - 1 or m[0] >= f[0]) if m[1] < f[1] else (o2 >= absd - 1 or m[0] <= f[0])
    eqd = lambda r, f: abs(r[0] - f[0]) <= d and abs(r[1] - f[1]) <= d
    def midx(f):
        for i, r in enumerate(R):
            if r[1] < f[0]: continue
            return i if (not f[1] < r[0]) and eqd(r, f) else None
        return None
    ini = -1 if absent(k) else 0
    i = midx(k)
    if i is not None:
        r = R[i]; md = lambda f: abs(r[0] - f[0]) + abs(r[1] - f[1])
        return -1 if any(midx(f) == i and md(f) < md(k) for f in K if abs(f[0] - r[0]) <= d) else 1
    for j, r in enumerate(R):
        if r[1] < k[0]: continue
        return (-1 if j > 0 else ini) if k[1] < r[0] else ini
    return ini

def diagnose(side):
    """first features whose summed lines differ from the recount, with the reads that contain / skip them"""
    kd, delta, ann, recs, rows, grp = side; out = []
    for c in ann:
        feats = sorted(set(f for i in ann[c] for f in (i[3] if kd == 0 else [(a[1] + 1, b[0] - 1) for a, b in zip(i[3], i[3][1:]) if a[1] + 1 < b[0]])))
        rc = [r for r in recs if r["chr"] == c]
        obs = collections.defaultdict(lambda: [0, 0])
        for r in rows:
            if r["chr"] == c: obs[(r["start"], r["end"], r["group"])][0] += r["incl"]; obs[(r["start"], r["end"], r["group"])][1] += r["excl"]
        for k in feats:
            exp = collections.defaultdict(lambda: [0, 0]); who = collections.defaultdict(list)
            for r in rc:
                if r["exons"][-1][1] < k[0] - delta - 1 or r["exons"][0][0] > k[1] + delta + 1: continue
                v = py_value(kd, delta, ABSD, feats, r["exons"], r["polya"], r["polyt"], k)
                if v in (1, -1): exp[grp(r)][0 if v == 1 else 1] += 1; who[grp(r)].append((r["read_id"], r["type"], "include" if v == 1 else "exclude"))
            for g in set(list(exp) + [x[2] for x in obs if x[:2] == k]):
                if obs.get((k[0], k[1], g), [0, 0]) != exp.get(g, [0, 0]):
                    out.append(dict(chr=c, feature=k, group=g, lines_sum_include_exclude=obs.get((k[0], k[1], g), [0, 0]), recount_include_exclude=exp.get(g, [0, 0]), reads=who.get(g, [])[:12]))
                    if len(out) >= 3: return out
    return out

def load_annotation(gtf):
    import pipeline as P
    tr, genes = P.read_gtf(gtf)
    per = collections.OrderedDict()
    for tid, t in tr.items():
        if t["exons"]: per.setdefault(t["chr"], []).append((tid, t["gene"], t["strand"], t["exons"]))
    return per

def read_trace(prefix):
    tr = {}; deltas = set(); bad = []
    for p in glob.glob(prefix + ".*"):
        for l in open(p):
            r = json.loads(l)
            if "log_error" in r: bad.append(r); continue
            tr.setdefault((r["read_id"], r["chr"], tuple(tuple(e) for e in r["exons"])), []).append(r); deltas.add((r["delta"], r["absd"]))
    return tr, deltas, bad

def run_jobs(jobs, nworkers=4):
    import pipeline as P
    from concurrent.futures import ThreadPoolExecutor
    def one(j):
        rc, log = P.run_isoquant(j["out"], j["args"], hashseed=j.get("hashseed", "0"), wrapper=THIS, env_extra={"C13_TRACE": os.path.join(j["out"] + "_trace", "t"), "ABLAB_ISOQUANT_VERIF": "1", "VERIF_REPO": REPO})
        j["rc"] = rc; j["log"] = log[-3000:]; return j
    for j in jobs: os.makedirs(j["out"] + "_trace", exist_ok=True)
    with ThreadPoolExecutor(nworkers) as ex: return list(ex.map(one, jobs))

def c13_world(seed, rnd):
    """generated annotation with overlapping exons, shared / contained / similar features and a multi-gene exon, and reads that include, skip and shift them.
       Returns (World, explicit isoforms [(tid, gene, chr, strand, exons)], gene lines)"""
    import gen_data
    w = gen_data.World(seed, n_chr=2, genes_per_chr=(2, 3))
    isoforms = []; genes = []
    w.chroms = {c: list(s) for c, s in w.chroms.items()}
    for g in w.genes:
        genes.append([g["id"], g["chr"], g["strand"], g["start"], g["end"]])
        for tid, ix in g["isoforms"].items(): isoforms.append([tid, g["id"], g["chr"], g["strand"], [g["pool"][i] for i in ix]])
        pool = g["pool"]
        if len(pool) >= 3:
            base = [pool[i] for i in g["isoforms"][g["id"] + ".T0"]]
            # alternative 3' site within delta (similar), alternative 5' site 40 bp inside (contained), a retained intron (containing exon)
            i = rnd.randrange(1, len(base) - 1); a, b = base[i]
            v1 = list(base); v1[i] = (a, b - rnd.choice([2, 3, 5])) if b - a > 12 else (a, b)
            v2 = list(base); v2[i] = (a + min(40, (b - a) // 2), b)
            v3 = list(base); v3[i - 1:i + 1] = [(base[i - 1][0], base[i][1])]
            for k, v in enumerate((v1, v2, v3)):
                if v != base and v not in [x[4] for x in isoforms]:
                    isoforms.append(["%s.V%d" % (g["id"], k), g["id"], g["chr"], g["strand"], v]); w.plant(v, g["chr"], g["strand"])
    # a second gene on the opposite strand sharing one exon exactly with the first multi-exon gene of each chromosome (multi-gene feature, strand string "+-")
    for c in w.chroms:
        cand = [g for g in w.genes if g["chr"] == c and len(g["pool"]) >= 3]
        if not cand: continue
        g = cand[0]; e = g["pool"][1]; other = "-" if g["strand"] == "+" else "+"
        ex = [(max(1, e[0] - 700), e[0] - 500), e] if e[0] > g["pool"][0][1] + 720 else [e, (e[1] + 90, e[1] + 160)]
        if all(a[1] < b[0] for a, b in zip(ex, ex[1:])) and (len(ex) < 2 or ex[-1][1] < len(w.chroms[c]) - 1000):
            gid = "%s_AS" % g["id"]; genes.append([gid, c, other, ex[0][0], ex[-1][1]]); isoforms.append([gid + ".T0", gid, c, other, ex])
    w.chroms = {c: "".join(s) for c, s in w.chroms.items()}
    for gl in genes:
        own = [i for i in isoforms if i[1] == gl[0]]; gl[3] = min(i[4][0][0] for i in own); gl[4] = max(i[4][-1][1] for i in own)
    # reads
    n = 0
    for tid, gid, c, strand, ex in list(isoforms):
        for rep in range(4):
            kind = rnd.choice(["fl", "fl", "jit", "jit2", "skip", "retain", "tr", "del"]) if len(ex) > 1 else rnd.choice(["fl", "short"])
            e2 = list(ex); polya = True; indel = None
            if kind == "jit": e2 = [((a + rnd.randint(-4, 4)) if k > 0 else a, (b + rnd.randint(-4, 4)) if k < len(ex) - 1 else b) for k, (a, b) in enumerate(ex)]
            elif kind == "jit2": e2 = [((a + rnd.randint(-9, 9)) if k > 0 else a, (b + rnd.randint(-9, 9)) if k < len(ex) - 1 else b) for k, (a, b) in enumerate(ex)]
            elif kind == "skip" and len(ex) > 2: del e2[rnd.randrange(1, len(ex) - 1)]
            elif kind == "retain": i = rnd.randrange(len(ex) - 1); e2[i:i + 2] = [(ex[i][0], ex[i + 1][1])]
            elif kind == "tr" and len(ex) > 2: e2 = ex[1:] if rnd.random() < .5 else ex[:-1]; polya = rnd.random() < .5
            elif kind == "del": indel = "D"
            elif kind == "short": e2 = [(ex[0][0] + 5, max(ex[0][0] + 10, ex[0][1] - 5))]
            e2 = [(a, b) for a, b in e2 if a <= b]
            if any(a[1] + 1 >= b[0] for a, b in zip(e2, e2[1:])) or not e2: e2 = list(ex)
            w.add_read("%s_%s_%d" % (kind, tid, n), c, e2, strand, polya=polya, indel=indel, tags={"RG": rnd.choice(["zeta", "alpha", "G10", "G9"])} if rnd.random() < .85 else {}); n += 1
        # unspliced reads lying inside an intron (reported as noninformative): they skip the intron, so they must add to its exclude count
        for a, b in zip(ex, ex[1:]):
            if b[0] - a[1] > 260 and rnd.random() < .6:
                s0 = a[1] + rnd.randint(25, 60); w.add_read("intronic_%s_%d" % (tid, n), c, [(s0, min(b[0] - 25, s0 + rnd.randint(90, 400)))], strand, polya=False,
                                                            tags={"RG": rnd.choice(["zeta", "alpha", "G10", "G9"])}); n += 1
    return w, isoforms, genes

def write_c13_world(w, isoforms, genes, out_dir):
    paths = w.write(out_dir)
    with open(os.path.join(out_dir, "annotation.gtf"), "w") as f:
        for gid, c, strand, s, e in genes:
            f.write('%s\tsyn\tgene\t%d\t%d\t.\t%s\t.\tgene_id "%s";\n' % (c, s, e, strand, gid))
            for tid, g2, c2, st2, ex in isoforms:
                if g2 != gid: continue
                f.write('%s\tsyn\ttranscript\t%d\t%d\t.\t%s\t.\tgene_id "%s"; transcript_id "%s";\n' % (c, ex[0][0], ex[-1][1], strand, gid, tid))
                for a, b in ex: f.write('%s\tsyn\texon\t%d\t%d\t.\t%s\t.\tgene_id "%s"; transcript_id "%s";\n' % (c, a, b, strand, gid, tid))
    return paths

def pipeline(ctx, quick):
    import pipeline as P
    root = P.scratch("iqv_c13p_"); rnd = ctx.rnd
    try:
        data = os.path.join(root, "data"); b = P.bundled(data)
        import pysam
        btruth = {}; gtab = os.path.join(data, "c13_groups.tsv")
        with pysam.AlignmentFile(b["bam"], "rb") as bf:
            for a in bf.fetch(until_eof=True):
                if a.query_name not in btruth and rnd.random() < .85: btruth[a.query_name] = rnd.choice(["zeta", "alpha", "G10", "G9"])
        with open(gtab, "w") as f:
            for n, g in btruth.items(): f.write("%s\t%s\n" % (n, g))
        common = ["--complete_genedb", "-p", "S", "--count_exons"]
        jobs = []
        def bjob(name, strat, extra, group_of, dt="nanopore", hashseed="0"):
            jobs.append(dict(name="bundled/" + name, strat=strat, delta_arg=None, gtf=b["gtf"], group_of=group_of, out=os.path.join(root, "b%d" % len(jobs)), hashseed=hashseed,
                             args=["--bam", b["bam"], "--reference", b["fasta"], "--genedb", b["gtf"], "--data_type", dt] + (["--matching_strategy", strat] if strat else []) + common + extra))
        bjob("default/file-groups", None, ["--read_group", "file:%s:0:1" % gtab], lambda n: btruth.get(n, "NA"))
        bjob("precise/threads2", "precise", ["--threads", "2"], None, hashseed="3")
        bjob("loose/high_memory", "loose", ["--high_memory"], None, hashseed="5")
        if not quick:
            bjob("exact", "exact", [], None); bjob("pacbio", None, [], None, dt="pacbio_ccs")
        worlds = [11] + ([] if quick else [300 + ctx.seed, 400 + ctx.seed])
        for wi, ws in enumerate(worlds):
            wd = os.path.join(root, "w%d" % wi); w, isoforms, genes = c13_world(ws, random.Random(ws * 7 + 1)); paths = write_c13_world(w, isoforms, genes, wd)
            wtruth = {r["name"]: r["tags"].get("RG", "NA") for r in w.reads}
            # (matching strategy, explicit --delta or None, further options); an explicit --delta (0 and a non-preset value) must be the delta of the counts
            plan = [("default", None, ["--read_group", "tag:RG", "--threads", "2"]), ("default", 0, ["--read_group", "tag:RG"]), ("precise", 3, [])]
            if not quick: plan += [("exact", None, []), ("loose", None, ["--read_group", "tag:RG"]), ("loose", 0, []), ("default", 9, [])]
            if wi > 0: plan = [plan[0], ("loose", 0, []), ("default", 9, ["--read_group", "tag:RG"])]       # further worlds: grouped default, explicit delta 0 and 9
            for strat, darg, extra in plan if not quick or wi == 0 else ():
                jobs.append(dict(name="synthetic%d/%s%s" % (ws, strat, "" if darg is None else "/--delta %d" % darg), strat=strat, delta_arg=darg, gtf=os.path.join(wd, "annotation.gtf"),
                                 group_of=(lambda n, t=wtruth: t[n]) if "--read_group" in extra else None,
                                 out=os.path.join(root, "w%d_%d" % (wi, len(jobs))), hashseed=str(wi),
                                 args=["--bam", paths[0], "--reference", os.path.join(wd, "genome.fa"), "--genedb", os.path.join(wd, "annotation.gtf"), "--data_type", "nanopore",
                                       "--matching_strategy", strat] + ([] if darg is None else ["--delta", str(darg)]) + common + extra))
        run_jobs(jobs)
        ctx.cov["pipeline_runs"] += len(jobs)
        cases = []; ann_cache = {}; tcases = []
        for j in jobs:
            rep = {"run": j["name"], "args": [a.replace(root, "<scratch>") for a in j["args"]], "PYTHONHASHSEED": j["hashseed"]}
            if j["rc"] != 0:
                ctx.violation(None, "IsoQuant run with --count_exons failed (exit %d)" % j["rc"], dict(rep, log=j["log"][-1500:])); continue
            # the delta that was ASKED for: an explicit --delta, else the documented preset of the matching strategy
            delta = j["delta_arg"] if j["delta_arg"] is not None else PRESETS[j["strat"] or ("precise" if "pacbio_ccs" in j["args"] else "default")]
            trace, deltas, bad = read_trace(os.path.join(j["out"] + "_trace", "t"))
            if bad:
                ctx.broken("pipeline:trace", "run %s: logging errors in the trace %s" % (j["name"], bad[:2])); continue
            rep["requested (delta, intron absence overlap)"] = (delta, ABSD); rep["parameters seen by the profile constructors"] = sorted(deltas)
            if deltas and deltas != {(delta, ABSD)}:
                # not an abort: the recount below uses the requested delta and names the miscounted feature; this records the cause
                ctx.violation(None, "the profile constructors of a --count_exons run work with a delta other than the one requested on the command line", dict(rep))
            if j["gtf"] not in ann_cache: ann_cache[j["gtf"]] = load_annotation(j["gtf"])
            ann = ann_cache[j["gtf"]]
            recs = []; last = None; missing = 0
            for l in P.read_assignments(P.find(j["out"], "S", "read_assignments.tsv")):
                key = (l["read_id"], l["chr"], tuple(l["exons"]), l["assignment_type"])
                if key == last: continue
                last = key
                t = trace.get(key[:3])
                if t: pa, pt = t[0]["polya"], t[0]["polyt"]
                else: pa, pt = -1, -1; missing += 0 if l["assignment_type"] == "intergenic" else 1
                alts = sorted(set(tuple(sorted(x["genes"])) for x in (t or [])))
                recs.append(dict(read_id=l["read_id"], chr=l["chr"], exons=l["exons"], polya=pa, polyt=pt, type=l["assignment_type"], alts=alts))
            if missing:
                ctx.broken("pipeline:trace", "run %s: %d genic records of read_assignments.tsv have no traced construct_profiles call" % (j["name"], missing)); continue
            tr_recs = [r for l in trace.values() for r in l]
            for r in rnd.sample(tr_recs, min(len(tr_recs), 70 if quick else 1200)):
                gs = set(r["genes"]); isos = [i for i in ann.get(r["chr"], []) if i[1] in gs]; gc = Codes([i[1] for i in isos] + ["g"])
                for kd, prof in ((0, r["exon_profile"]), (1, r["intron_profile"])):
                    if prof is None: continue
                    K = sorted(set(f for i in isos for f in (i[3] if kd == 0 else [(a[1] + 1, b[0] - 1) for a, b in zip(i[3], i[3][1:]) if a[1] + 1 < b[0]])))
                    tcases.append(("(((((((%d, %d, %d), %s), %s), %s), %s), %s), %s)" % (kd, delta, ABSD, tl(isos, lambda i: "((%s, %s), %s)" % (cz(gc(i[1])), cz(ord(i[2])), ivl(i[3])), "isoform"),
                                    civ(tuple(r["gene_region"])), ivl(r["exons"]), cz(r["polya"]), cz(r["polyt"]), zl(prof)),
                                   dict(run=j["name"], read_id=r["read_id"], kind=["exon", "intron"][kd], delta=delta, genes=r["genes"], read_blocks=[tuple(e) for e in r["exons"]], polya=r["polya"], polyt=r["polyt"],
                                        known=K, gene_profile=prof)))
            d = os.path.join(j["out"], "S")
            files = [("S.exon_counts.tsv", 0, None), ("S.intron_counts.tsv", 1, None)]
            if j["group_of"]: files += [("S.exon_grouped_counts.tsv", 0, j["group_of"]), ("S.intron_grouped_counts.tsv", 1, j["group_of"])]
            chrs = list(ann); chrc = Codes(chrs + [r["chr"] for r in recs]); genec = Codes([i[1] for c in ann for i in ann[c]])
            for fn, kd, gof in files:
                p = os.path.join(d, fn)
                if not os.path.exists(p):
                    ctx.violation(None, "%s is missing from a --count_exons run" % fn, rep); continue
                rows = parse_count_file(p)
                grp = (lambda r: "NA") if gof is None else (lambda r: gof(r["read_id"]))
                grpc = Codes([grp(r) for r in recs] + [r["group"] for r in rows] + ["NA"])
                unknown = [r for r in rows if r["chr"] not in chrc.m or any(g not in genec.m for g in r["genes"])]
                if unknown:
                    ctx.violation(None, "%s has a line for a chromosome / gene that is not in the annotation" % fn, dict(rep, line=unknown[0])); continue
                term = "((((%d, %d, %d), %s), %s), %s)" % (kd, delta, ABSD,
                        tl(chrs, lambda c: "(%s, %s)" % (cz(chrc(c)), tl(ann[c], lambda i: "((%s, %s), %s)" % (cz(genec(i[1])), cz(ord(i[2])), ivl(i[3])), "isoform")), "Z * list isoform"),
                        tl(recs, lambda r: "(((((%s, %s), %s), %s), %s), %s)" % (cz(chrc(r["chr"])), cz(grpc(grp(r))), ivl(r["exons"]), cz(r["polya"]), cz(r["polyt"]),
                                                                                tl(r["alts"], lambda a: zl([genec(g) for g in a if g in genec.m]), "list Z")), "record * list (list Z)"),
                        tl(rows, lambda r: crow(r, chrc, genec, grpc), ROWT))
                keyc = collections.Counter((r["chr"], r["start"], r["end"], r["strand"], r["group"]) for r in rows)
                dups = sorted(k for k, n in keyc.items() if n > 1)
                cases.append((term, dict(rep, _side=(kd, delta, ann, recs, rows, grp), file=fn, delta=delta, records=len(recs), lines=len(rows), groups=sorted(set(r["group"] for r in rows)),
                                         records_profiled_in_several_regions=[dict(read_id=r["read_id"], exons=r["exons"], gene_lists=r["alts"]) for r in recs if len(r["alts"]) > 1][:8], duplicated_keys=dups[:10], n_duplicated=len(dups),
                                         example_duplicates=[r for r in rows if (r["chr"], r["start"], r["end"], r["strand"], r["group"]) in dups[:2]][:6])))
        sides = {}
        for _, o in cases: sides[id(o)] = o.pop("_side")
        def describe(viol):
            for o in viol:
                if "miscounted_features" not in o:
                    try: o["miscounted_features"] = diagnose(sides[id(o)])
                    except Exception: o["miscounted_features"] = "diagnosis failed: " + traceback.format_exc()[-300:]
        pre0 = PRE_PIPE + "Definition check (c:T) := true.\nDefinition prop := fco_region.\n"
        mism, viol = ctx.corr("pipeline_feature_counts_by_region", pre0, cases, shard=1, nontrivial=lambda o: o["lines"] > 0, ctype="T", timeout=900)
        bad_sum = set(id(o) for o in viol); describe(viol)
        ctx.corr_report("pipeline_feature_counts_by_region", mism, viol, what="exon/intron count file of a whole run: per (chromosome, start, end, strand, group) the lines do not add up to the recount from the "
                        "processed records and the annotation (even when a record profiled in several sub-regions is allowed to count with any of its gene lists), or a line's flags / strand / gene set differ from the annotation")
        pre1 = PRE_PIPE + "Definition check (c:T) := true.\nDefinition prop := fco.\n"
        mism, viol = ctx.corr("pipeline_feature_counts", pre1, cases, shard=1, nontrivial=lambda o: o["lines"] > 0, ctype="T", timeout=900)
        describe(viol)
        # the property itself; matched to the known finding only when the region-aware recount accepts the same file and a record was profiled with differing gene lists
        ctx.corr_report("pipeline_feature_counts", mism, viol, keyfn=lambda o: "C13:split-region-gene-info" if id(o) not in bad_sum and o["records_profiled_in_several_regions"] else None,
                        what="exon/intron count file of a whole run: per (chromosome, start, end, strand, group) the lines do not add up to the number of processed records that contain / skip the feature")
        pre2 = PRE_PIPE + "Definition check (c:T) := true.\nDefinition prop (c:T) := rows_nodup (snd c).\n"
        mism, viol = ctx.corr("pipeline_one_line_per_feature", pre2, cases, shard=4, nontrivial=lambda o: o["lines"] > 0, ctype="T", timeout=900)
        # matched to the known finding only when the duplicated lines of a feature add up to the recount (the other correspondence accepted the same file)
        ctx.corr_report("pipeline_one_line_per_feature", mism, viol, keyfn=lambda o: "C13:row-per-region" if id(o) not in bad_sum else None,
                        what="a feature has several lines in an exon/intron count file (one per processing region that loaded its gene)")
        mism, viol = ctx.corr("pipeline_profiles", PRE_TRACE, tcases, shard=100, nontrivial=lambda o: 1 in o["gene_profile"] and -1 in o["gene_profile"], ctype="T")
        ctx.corr_report("pipeline_profiles", mism, viol, keyfn=lambda o: hyp_key(o["delta"], o["known"], o["read_blocks"], 0 if o["kind"] == "exon" else 1),
                        what="a gene profile computed inside the pipeline violates `include iff contained within delta / exclude iff spanned without containing`")
        ctx.rule("pipeline profiles: a sample of the traced construct_profiles calls of every run; check = the sweep model and the declarative per-feature values over the features of the "
                 "traced gene list (from the GTF) give the exon and intron gene profiles computed inside the pipeline (position i = feature i); prop = clean statement, keyed by H1/H2")
        ctx.rule("pipeline configurations: matching strategies (delta presets) and explicit --delta 0 / 3 / 9 (the recount always uses the delta that was asked for), threads, --high_memory, "
                 "grouping by table and by tag; the generated reads include unspliced reads inside introns (noninformative) and reads 1-9 bp off annotated exon boundaries")
        ctx.rule("pipeline: isoquant.py --count_exons (through a tracing wrapper that only records polyA/polyT positions and delta) on the bundled chr9 data (matching strategies = delta presets, "
                 "threads, --high_memory, group table) and on generated two-chromosome annotations with similar / contained / multi-gene features and reads that include, skip and shift "
                 "exons (RG groups); exon_counts / intron_counts and their grouped variants are recounted inside Coq from read_assignments.tsv + GTF (feature_counts_ok: lines summed per "
                 "feature and group, flags / strand / gene set from the whole annotation); a second correspondence requires one line per feature and group; "
                 "pipeline_feature_counts_by_region is the same recount in which a record profiled with several gene lists (its alignment overlaps several sub-regions of a split cluster) may "
                 "count with any of them: it must accept every file, and it is what separates the known finding C13:split-region-gene-info from any other miscount")
        ctx.notes.append("pipeline level: the recount (profile value of every record x feature, tallies per group, flags) is evaluated inside Coq; Python parses files, interns names and joins the traced polyA positions")
    finally:
        shutil.rmtree(root, ignore_errors=True)


def run(ctx):
    quick = ctx.tier == "quick"
    ctx.prepare("C13.v")
    for section in (counters, feature_properties, gene_clusters, pipeline):
        try:
            section(ctx, quick)
        except Exception:
            ctx.broken("harness:%s" % section.__name__, "exception in section %s of the check (the other sections still ran):\n%s" % (section.__name__, traceback.format_exc()[-3000:]))
    ctx.assume.append("strings are interned order-preservingly (group names: Python sorted() = order of the codes); single-character strands; gene lists compared as sets (their order in a line is a hash-seed matter, C06)")
    ctx.assume.append("pipeline level: processed records = maximal runs of lines of read_assignments.tsv with equal (read id, chromosome, exons, type); external polyA/polyT positions come from the trace of the real AlignmentInfo.construct_profiles call of that record; pysam / gffutils parsing")
    ctx.assume.append("delta presets exact 0 / precise 4 / default 6 / loose 12 (documented) and minimal_intron_absence_overlap 20, cross-checked against the traced parameters")
