"""C05 - every aligned read is accounted for; region splitting loses or duplicates none.

Unit level (real code of src/alignment_processor.py, src/multimap_resolver.py against coq/Regions.v):
  constants            class attributes = gen/Tables.v = what the theorems are instantiated with; float valley test = integer test
  split                AlignmentCollector.split_coverage_regions on every coverage profile over <= 6-7 bins (scaled constants)
  process (fake)       AlignmentCollector.process + forward_alignments + both storages on fake alignments (fetch emulated),
                       every placement of <= 3 alignments on a bin grid, scaled constants
  process (real)       the same on pysam-written BAMs at the real constants: valleys at every offset to the bin grid / cluster end
  index                InMemoryAlignmentStorage.fill_index
  dedup                MultimapResolver.find_duplicates with BasicReadAssignment.__eq__
Pipeline level: generated BAMs through isoquant.py, default / --high_memory, with / without --genedb; Coq evaluates accounting_ok."""
import itertools, os, re, shutil, types, collections, fractions, json
from lib import *

B = 256
SCALED = (256, 768, 4, 1, 1, 100)


def cconsts(k): return "(%s)" % ", ".join(cz(x) for x in k)
def caln(a): return "(%s, %s, %s)" % (cz(a[0]), cz(a[1]), cz(a[2]))
def calns(l): return clist(l, caln)
def cbrec(b): return "(%s, %s, %s)" % (cz(b[0]), cz(b[1]), cz(b[2]))
def cpout(out): return clist(out, lambda e: "(%s, %s)" % (civ(e[0]), czs(e[1])))
def cout(o, f): return "(Raises %d)" % o[1] if isinstance(o, tuple) and o and o[0] == "raises" else "(Ok %s)" % f(o)

PRE = "From IQ Require Import Regions RegionsCorr.\nFrom IQ.gen Require Import Prims Tables.\nOpen Scope Z_scope.\n"


class Consts:
    """temporarily set the class-level thresholds of the real code"""
    def __init__(self, k):
        self.k = k
    def __enter__(self):
        from src import alignment_processor as ap
        self.ap = ap
        self.old = (ap.AbstractAlignmentStorage.COVERAGE_BIN, ap.AlignmentCollector.MAX_REGION_LEN, ap.AlignmentCollector.MIN_READS_TO_SPLIT,
                    ap.AlignmentCollector.ABS_COV_VALLEY, ap.AlignmentCollector.REL_COV_VALLEY)
        ap.AbstractAlignmentStorage.COVERAGE_BIN = self.k[0]; ap.AlignmentCollector.MAX_REGION_LEN = self.k[1]
        ap.AlignmentCollector.MIN_READS_TO_SPLIT = self.k[2]; ap.AlignmentCollector.ABS_COV_VALLEY = self.k[3]
        ap.AlignmentCollector.REL_COV_VALLEY = self.k[4] / self.k[5]
    def __exit__(self, *a):
        ap = self.ap
        (ap.AbstractAlignmentStorage.COVERAGE_BIN, ap.AlignmentCollector.MAX_REGION_LEN, ap.AlignmentCollector.MIN_READS_TO_SPLIT,
         ap.AlignmentCollector.ABS_COV_VALLEY, ap.AlignmentCollector.REL_COV_VALLEY) = self.old


def real_consts():
    from src import alignment_processor as ap
    rel = fractions.Fraction(repr(ap.AlignmentCollector.REL_COV_VALLEY))
    return (ap.AbstractAlignmentStorage.COVERAGE_BIN, ap.AlignmentCollector.MAX_REGION_LEN, ap.AlignmentCollector.MIN_READS_TO_SPLIT,
            ap.AlignmentCollector.ABS_COV_VALLEY, rel.numerator, rel.denominator)


# ------------------------------------------------------------------------------------------------ fake alignments / BAM
class FA:
    """the attributes process(), the storages and the merger read"""
    __slots__ = ("reference_start", "reference_end", "query_name", "flag", "reference_id", "mapping_quality", "is_secondary", "is_supplementary")
    def __init__(self, rs, re_, ident, flag=0, ref=0, mapq=60):
        self.reference_start = rs; self.reference_end = re_; self.query_name = ident; self.flag = flag; self.reference_id = ref
        self.mapping_quality = mapq; self.is_secondary = bool(flag & 256); self.is_supplementary = bool(flag & 2048)


class FakeBam:
    """htslib fetch as trusted: the records overlapping the half-open [start, end), in file order"""
    def __init__(self, alns, length=10 ** 7): self.alns = alns; self.length = length
    def fetch(self, chr_id, start, end, multiple_iterators=False):
        return iter([a for a in self.alns if a.reference_start < end and a.reference_end > start])
    def get_reference_length(self, chr_id): return self.length
    def reset(self): pass


def run_process(bam_pairs, chr_id, length, high_memory):
    """the real AlignmentCollector.process / forward_alignments on a stub collector whose per-region processing only records
       (region, ids of the alignments handed over).  Returns (file order, outcome, stats)."""
    from src import alignment_processor as ap
    from src.stats import EnumStats
    stub = types.SimpleNamespace()
    stub.params = types.SimpleNamespace(high_memory=high_memory)
    stub.bam_merger = ap.BAMOnlineMerger(bam_pairs, chr_id, 0, length, multiple_iterators=not high_memory)
    stub.alignment_stat_counter = EnumStats()
    stub.forward_alignments = lambda storage: ap.AlignmentCollector.forward_alignments(stub, storage)
    stub.process_alignments_in_region = lambda region, alns: (region, [a.query_name for _, a in alns])
    try:
        out = [(tuple(r), ids) for r, ids in ap.AlignmentCollector.process(stub)]
    except KeyError:
        out = ("raises", 3)
    except Exception as e:                      # anything else is reported by the correspondence as a mismatch
        out = ("raises", 7)
    st = stub.alignment_stat_counter.stats_dict
    stats = (st.get(ap.AlignmentType.primary, 0), st.get(ap.AlignmentType.secondary, 0), st.get(ap.AlignmentType.supplementary, 0))
    return out, stats


def proc_case(k, hm, file, out, stats):
    """file: list of (rs, re, id, flag, ref, mapq) in the order the merger yields them"""
    alns = [(a[0], a[1], a[2]) for a in file]; recs = [(a[3], a[4], a[5]) for a in file]
    term = "((%s, %s, %s, %s), (%s, (%s, %s, %s)))" % (cconsts(k), cbool(hm), calns(alns), clist(recs, cbrec), cout(out, cpout), cz(stats[0]), cz(stats[1]), cz(stats[2]))
    return term, {"constants": k, "high_memory": hm, "alignments(start,end,id,flag,ref,mapq)": file, "impl_regions": out, "impl_stats": stats}


def proc_key(o):
    """structural signature of a failing process()-level case"""
    out = o["impl_regions"]; file = o["alignments(start,end,id,flag,ref,mapq)"]
    if isinstance(out, tuple): return "process:raises"
    seen = set(i for _, ids in out for i in ids)
    missing = [a for a in file if a[2] not in seen]
    if not out and file: return "split:no-region"
    if missing:
        bins_last = max((a[1] - 1) // o["constants"][0] for a in file)
        if all(a[0] // o["constants"][0] == (a[1] - 1) // o["constants"][0] for a in missing) or True:
            return "inmemory:start-in-last-bin" if o["high_memory"] else "split:last-bin-without-region"
    return None


KEY_CORNER = "C05:one-base-alignment-on-bin-boundary"


def detect_repaired():
    """which split_coverage_regions is checked out?  Run the real function on a region that starts exactly on a bin boundary and
       is split (3 bins, scaled constants): before fixes/C05_first_subregion_start.diff the first sub-region starts at
       256 * first_bin + 1 (-> models / specifications `..._prev`, the one-base corner is the known finding), after it at
       genomic_region[0] (-> the unsuffixed ones: full coverage required)."""
    from src import alignment_processor as ap
    class St:
        coverage_dict = collections.defaultdict(int, {3: 2, 4: 2, 5: 2})
        def get_read_count(self): return 4
    with Consts(SCALED):
        regs = ap.AlignmentCollector.split_coverage_regions((3 * B, 5 * B + 255), St())
    return bool(regs) and regs[0][0] == 3 * B


def fake_proc_cases(ctx, k, files, modes=(False, True), nbams=1):
    cases = []
    with Consts(k):
        for file in files:
            alns = [FA(*a) for a in file]
            for hm in modes:
                order = file
                if nbams == 1: pairs = [(FakeBam(alns), "f0")]
                else:
                    # several input files: the stream process() sees is the k-way merge (ties on (start, end) go to the lower file index);
                    # the merge itself is property C12's subject, here its output order is taken from the real merger
                    pairs = [(FakeBam(alns[i::nbams]), "f%d" % i) for i in range(nbams)]
                    from src import alignment_processor as ap
                    byid = {a[2]: a for a in file}
                    order = [byid[a.query_name] for _, a in ap.BAMOnlineMerger(pairs, "c", 0, 10 ** 7, multiple_iterators=True).get()]
                out, stats = run_process(pairs, "c", 10 ** 7, hm)
                cases.append(proc_case(k, hm, order, out, stats))
    return cases


# ------------------------------------------------------------------------------------------------ generators
def grid_files(nbins, offsets, kmax, first_bin=2):
    """every multiset of <= kmax alignments with end points on the grid {bin * 256 + off}, sorted by start"""
    pts = sorted(set((first_bin + b) * B + o for b in range(nbins) for o in offsets))
    alns = [(s, e + 1) for s in pts for e in pts if e >= s]            # closed [s, e] -> pysam (s, e + 1)
    for n in range(1, kmax + 1):
        for combo in itertools.combinations_with_replacement(alns, n):
            yield [(a[0], a[1], i, 0, 0, 60) for i, a in enumerate(combo)]


def structured_real(rnd, n, depth_choices=(3, 3, 3, 260)):
    """clusters that the real constants split: two or three blocks of long (spliced) alignments joined by thin bridges, the block
       ends / bridge ends / tail starts placed at chosen offsets around bin boundaries; short reads at the tail; cluster start
       on or off a bin boundary"""
    offs = [0, 1, 2, 127, 254, 255]
    for _ in range(n):
        depth = rnd.choice(depth_choices); file = []; ident = [0]
        def add(s, e, cnt=1, flag=0, mapq=60):
            for _ in range(cnt):
                file.append((s, e, ident[0], flag, 0, mapq)); ident[0] += 1
        start = rnd.randint(10, 40) * B + rnd.choice(offs)
        pos = start; nblocks = rnd.choice([1, 2, 2, 3])
        for b in range(nblocks):
            blen = rnd.choice([129, 130, 131, 140, 200]) * B + rnd.choice(offs) - rnd.choice(offs)
            if rnd.random() < .2: blen = rnd.randint(20, 128) * B
            end = pos + blen
            add(pos, end, depth)
            if rnd.random() < .5: add(pos + rnd.randint(0, 3 * B), end - rnd.randint(0, 3 * B), rnd.randint(1, 3))
            # bridge into the next block / tail
            bstart = end - rnd.choice([1, 2, 100, B, B + 1, 2 * B]); bend = (end // B + rnd.choice([1, 2, 3])) * B + rnd.choice(offs) + 1
            add(bstart, bend, rnd.choice([1, 1, 2]) if depth < 100 else rnd.choice([1, 2, 3]))
            pos = bend - rnd.choice([1, 2, 50, B])
        # tail: short reads starting in / just before the last bin
        last_bin_start = (max(a[1] - 1 for a in file) // B) * B
        for _t in range(rnd.choice([0, 1, 1, 2])):
            s = last_bin_start + rnd.choice([-2, -1, 0, 1, 2, 100]); hull_end = max(a[1] for a in file)
            if s < hull_end: add(s, max(s + 1, min(hull_end + rnd.choice([0, 1, 40]), s + rnd.choice([1, 2, 80, 300]))))
        if rnd.random() < .15: add(start, start + 1)            # one-base alignment on the first base
        # some records that the filters drop but process() still clusters and counts
        if rnd.random() < .3: add(start + 5, start + 900, 1, flag=256)
        if rnd.random() < .3: add(start + 7, start + 901, 1, flag=2048)
        file.sort(key=lambda a: (a[0], a[1]))
        yield file


def pile_ups(rnd):
    """>= MIN_READS_TO_SPLIT alignments inside one bin, at both ends of the bin and on its boundaries"""
    for (s0, ln) in ((20 * B + 30, 80), (20 * B, 80), (20 * B + 170, 86), (20 * B, 256), (20 * B, 1), (20 * B + 255, 1)):
        file = [(s0 + (i % max(1, min(50, 256 - ln - (s0 % B)))) if ln < 200 else s0, 0, i, 0, 0, 60) for i in range(1100)]
        file = [(a[0], min(a[0] + ln, (s0 // B + 1) * B), a[2], 0, 0, 60) for a in file]
        file.sort(key=lambda a: (a[0], a[1]))
        yield file
    # the same with a second, separate cluster of control reads
    yield sorted([(20 * B + 30 + i % 50, 20 * B + 110 + i % 50, i, 0, 0, 60) for i in range(1100)] + [(40 * B + 3 * i, 40 * B + 500 + 3 * i, 5000 + i, 0, 0, 60) for i in range(20)],
                 key=lambda a: (a[0], a[1]))


# ------------------------------------------------------------------------------------------------ real BAMs
def write_bam(path, chroms, records, sort=True):
    """chroms: list of (name, length); records: list of dict(name, chr (index or None), start, cigar, flag, mapq)"""
    import pysam
    hdr = {"HD": {"VN": "1.6", "SO": "unsorted"}, "SQ": [{"SN": c, "LN": l} for c, l in chroms]}
    u = path + ".unsorted.bam"
    with pysam.AlignmentFile(u, "wb", header=hdr) as out:
        for r in records:
            a = pysam.AlignedSegment(); a.query_name = r["name"]; a.flag = r.get("flag", 0)
            if r.get("chr") is None:
                a.reference_id = -1; a.reference_start = -1; a.mapping_quality = 0; a.query_sequence = r.get("seq") or "ACGTACGTAC"
            else:
                a.reference_id = r["chr"]; a.reference_start = r["start"]; a.cigartuples = r["cigar"]; a.mapping_quality = r.get("mapq", 60)
                a.query_sequence = r.get("seq") or "A" * sum(l for o, l in r["cigar"] if o in (0, 1, 4, 7, 8))
            out.write(a)
    if sort:
        pysam.sort("-o", path, u); os.remove(u)
    else:
        os.replace(u, path)
    pysam.index(path)
    return path


def span_cigar(length):
    """an alignment covering `length` reference bases: spliced when long"""
    if length <= 1200: return [(0, length)]
    return [(0, 500), (3, length - 1000), (0, 500)]


# ------------------------------------------------------------------------------------------------ the check
def run(ctx):
    import pysam
    from src import alignment_processor as ap
    from src.multimap_resolver import MultimapResolver
    from src.isoform_assignment import BasicReadAssignment, ReadAssignmentType
    quick = ctx.tier == "quick"
    rnd = ctx.rnd
    ctx.prepare("C05.v")
    REAL = real_consts()
    repaired = detect_repaired()
    sfx = "" if repaired else "_prev"
    PRE_PROC = PRE + "Definition check := proc_check%s.\nDefinition prop := proc_prop%s.\n" % (sfx, sfx)
    ctx.notes.append("split_coverage_regions variant detected on a split region that starts on a bin boundary: %s" %
                     ("REPAIRED (first sub-region starts at genomic_region[0]) -> split_check / split_prop / proc_check / proc_prop: tiling from r0, every record handed out" if repaired else
                      "UNREPAIRED (first sub-region starts at 256 * first_bin + 1) -> split_check_prev / split_prop_prev / proc_check_prev / proc_prop_prev: the one-base corner is exempted and reported as the known finding"))
    ctx.rule("the variant of split_coverage_regions is detected by running the real function on a split region that starts on a bin boundary; the matching model (split_regions / split_regions_prev) and "
             "specification (chain from r0, every record handed out / chain from max(bin start + 1, r0), one-base corner exempted) are used")

    # ---- 0. constants: class attributes = gen/Tables.v = instantiation of the theorems; float valley test = integer test
    mism, viol = ctx.corr("constants", PRE + "Definition check (c:consts) := consts_eqb c iq_consts.\nDefinition prop (c:consts) := (0 <? cBIN c).\n",
                          [(cconsts(REAL), {"class attributes (COVERAGE_BIN, MAX_REGION_LEN, MIN_READS_TO_SPLIT, ABS_COV_VALLEY, REL_COV_VALLEY as fraction)": REAL})])
    ctx.corr_report("constants", mism, viol)
    nfl = 0; rel = ap.AlignmentCollector.REL_COV_VALLEY; absv = ap.AlignmentCollector.ABS_COV_VALLEY
    for m in itertools.chain(range(0, 3000), range(3000, 3 * 10 ** 6 if quick else 3 * 10 ** 7, 100), (10 ** 9, 10 ** 12, 2 ** 40 * 100)):
        for c in {m * REAL[4] // REAL[5] + d for d in (-1, 0, 1, 2)} | {0, 1, 2}:
            nfl += 1
            if (c > max(absv, m * rel)) != (absv < c and m * REAL[4] < REAL[5] * c):
                ctx.broken("float-valley-test", "coverage %d, max_cov %d: float test %r, integer test %r" % (c, m, c > max(absv, m * rel), absv < c and m * REAL[4] < REAL[5] * c))
    ctx.count(evaluations=nfl, nontrivial=nfl)
    ctx.rule("valley test: `cov > max(ABS, max_cov * REL)` in floats = integer form used by the model, for max_cov in 0..3000, every multiple of 100 up to 3e6 (3e7 thorough) and coverage around max_cov/100")

    # ---- 1. split_coverage_regions on every coverage profile (scaled constants), fake storage with an explicit coverage_dict
    PRE_SPLIT = PRE + "Definition check := split_check%s.\nDefinition prop := split_prop%s.\n" % (sfx, sfx)
    class FakeStorage:
        def __init__(self, cov, count): self.coverage_dict = collections.defaultdict(int, cov); self.count = count
        def get_read_count(self): return self.count
    def split_case(k, region, count, cov):
        try:
            regs = [tuple(r) for r in ap.AlignmentCollector.split_coverage_regions(region, FakeStorage(dict(cov), count))]
        except Exception as e:
            regs = ("raises", 7)
        term = "((%s, %s, %s, %s), %s)" % (cconsts(k), civ(region), cz(count), clist(cov, civ), cout(regs, civs))
        return term, {"constants": k, "region": region, "read_count": count, "coverage_dict": cov, "impl": regs}
    def split_key(o):
        regs = o["impl"]
        if isinstance(regs, tuple): return "split:raises"
        if not regs: return "split:no-region"
        if regs[-1][1] < o["region"][1]: return "split:last-bin-without-region"
        return None
    cases = []
    vals = (0, 1, 2, 300)
    with Consts(SCALED):
        for nb in range(1, (6 if quick else 8) + 1):
            for prof in itertools.product(vals, repeat=nb):
                first = 3
                cov = [(first + i, v) for i, v in enumerate(prof)]
                placements = [(o0, o1) for o0 in (0, 1, 255) for o1 in (0, 1, 255)] if nb <= (5 if quick else 6) else [(0, 0), (100, 200)]
                for o0, o1 in placements:
                    r = (first * B + o0, (first + nb - 1) * B + o1)
                    if r[0] > r[1]: continue
                    cases.append(split_case(SCALED, r, 4, cov))
                if nb <= 3: cases.append(split_case(SCALED, (first * B, (first + nb - 1) * B + 255), 3, cov))   # long, few reads
        # region shorter than MAX_REGION_LEN: the read count decides
        for cnt in (0, 3, 4, 5):
            for r in ((800, 1000), (768, 1535), (768, 1536), (769, 1536)):
                cases.append(split_case(SCALED, r, cnt, [(b, 2) for b in range(r[0] // B, r[1] // B + 1)]))
    # other scalings: MAX_REGION_LEN not a multiple of the bin, another bin size, other valley thresholds
    for k in ((256, 700, 4, 1, 1, 100), (256, 256, 1, 1, 1, 100), (16, 48, 2, 1, 1, 100), (256, 768, 4, 2, 1, 10), (256, 1024, 4, 0, 1, 2)):
        with Consts(k):
            for nb in range(1, 6):
                for prof in itertools.product((0, 1, 2, 3, 30, 300) if nb <= 4 else vals, repeat=nb):
                    cov = [(1 + i, v) for i, v in enumerate(prof)]
                    r = (k[0] + rnd.choice([0, 1, k[0] - 1]), nb * k[0] + rnd.choice([0, 1, k[0] - 1]))
                    if r[0] <= r[1]: cases.append(split_case(k, r, k[2], cov))
    # real constants: long profiles with one or two valleys at every position relative to min_bins and to the last bin
    nlong = 0; long_cases = []
    for total in (1, 2, 127, 128, 129, 130, 131, 200, 257, 258, 259, 300):
        for v1 in sorted(set([total - 1, total - 2, total - 3, 126, 127, 128, 129, 130, 255, 256, 257, 258]) & set(range(total))):
            for depth, low in ((300, 1), (300, 3), (300, 4), (5, 1), (5, 2), (2000, 20), (2000, 21)):
                for v2 in (None, total - 1, total - 2):
                    prof = [depth] * total; prof[v1] = low
                    if v2 is not None and v2 >= 0: prof[v2] = low
                    first = 7; cov = [(first + i, v) for i, v in enumerate(prof)]
                    for o1 in (0, 1, 255):
                        r = (first * B + rnd.choice([0, 1, 77]), (first + total - 1) * B + o1)
                        if r[0] > r[1]: r = (first * B, r[1])                  # a genomic region is never inverted
                        long_cases.append(split_case(REAL, r, 1024, cov)); nlong += 1
    ctx.rule("split_coverage_regions: EVERY coverage profile over 1..%d bins with values {0,1,2,300} x region start/end offsets {0,1,255} to the bin grid (MAX_REGION_LEN=3*256, MIN_READS_TO_SPLIT=4), "
             "five other scalings (region length not a multiple of the bin, bin 16, other valley thresholds) over <= 5 bins, and %d profiles at the real constants with valleys at 126..130, 255..258 bins and on the last three bins; "
             "non-trivial = more than one sub-region" % (6 if quick else 8, nlong))
    mism, viol = ctx.corr("split_coverage_regions", PRE_SPLIT, cases, shard=1500, nontrivial=lambda o: not isinstance(o["impl"], tuple) and len(o["impl"]) > 1)
    ctx.corr_report("split_coverage_regions", mism, viol, keyfn=split_key)
    # the long profiles are the expensive ones to evaluate: small shards so that all coqc workers share them
    mism, viol = ctx.corr("split_coverage_regions(real constants)", PRE_SPLIT, long_cases, shard=125, nontrivial=lambda o: not isinstance(o["impl"], tuple) and len(o["impl"]) > 1)
    ctx.corr_report("split_coverage_regions(real constants)", mism, viol, keyfn=split_key)
    ctx.exhaustive = False

    # ---- 2. process() + forward_alignments + both storages on fake alignments, every placement on a bin grid (scaled constants)
    K2 = (256, 512, 1, 1, 1, 100)          # every cluster takes the splitting path, sub-regions of >= 2 bins
    files = list(grid_files(4, (0, 255), 2)) + list(grid_files(3, (0, 1, 255), 2))
    files += list(grid_files(5 if quick else 6, (0, 255), 3)) if not quick else rnd.sample(list(grid_files(5, (0, 255), 3)), 6000)
    cases = fake_proc_cases(ctx, K2, files)
    # denser random placements, deeper coverage, flags, two input files
    more = []
    for _ in range(1500 if quick else 15000):
        nb = rnd.randint(2, 8); n = rnd.randint(2, 7); file = []
        for i in range(n):
            s = 2 * B + rnd.randint(0, nb - 1) * B + rnd.choice([0, 1, 2, 100, 254, 255]); e = min(s + rnd.choice([1, 2, 3, 200, 256, 257, 500, 800, 1500]), (2 + nb) * B + 255)
            mult = rnd.choice([1, 1, 1, 2, 5]); flag = rnd.choice([0, 0, 0, 16, 256, 2048, 272])
            for _m in range(mult): file.append((s, max(e, s + 1), len(file), flag, 0, rnd.choice([0, 3, 60])))
        file.sort(key=lambda a: (a[0], a[1])); file = [(a[0], a[1], i) + a[3:] for i, a in enumerate(file)]
        more.append(file)
    cases += fake_proc_cases(ctx, SCALED, more[:len(more) // 2]) + fake_proc_cases(ctx, K2, more[len(more) // 2:])
    cases += fake_proc_cases(ctx, (16, 48, 2, 1, 1, 100), [[(a[0] // 16, max(a[0] // 16 + 1, a[1] // 16), a[2]) + a[3:] for a in f] for f in more[:300]])
    ctx.rule("process/forward_alignments/InMemoryAlignmentStorage/BAMAlignmentStorage (fetch emulated by an overlap filter) on fake alignments: every multiset of <= 2 alignments on the grid {bin*256+{0,1,255}} over 3 bins and {0,255} over 4 bins, "
             "%s multisets of 3 alignments over 5 bins, random denser placements with multiplicities and flags; constants scaled so that every cluster is split; both memory modes; non-trivial = a cluster was cut into >= 2 sub-regions" % ("6000 sampled" if quick else "all"))
    mism, viol = ctx.corr("process+forward(fake alignments)", PRE_PROC, cases, shard=1200, nontrivial=lambda o: not isinstance(o["impl_regions"], tuple) and len(o["impl_regions"]) > 1)
    ctx.corr_report("process+forward(fake alignments)", mism, viol, keyfn=proc_key)

    # ---- 3. the same at the REAL constants: structured clusters, single-bin pile-ups; real BAMs (pysam) and fake alignments
    files = list(structured_real(rnd, 150 if quick else 1500)) + list(pile_ups(rnd))
    corpus = [  # the witnesses of Regions.v
        sorted([(5000, 38000, i, 0, 0, 60) for i in range(300)] + [(37900, 39000, 1000, 0, 0, 60)] + [(38900, 72000, 2000 + i, 0, 0, 60) for i in range(300)] +
               [(71900, 72440, 3000 + i, 0, 0, 60) for i in range(4)] + [(72300, 72460, 4000, 0, 0, 60), (72450, 72500, 9999, 0, 0, 60)], key=lambda a: (a[0], a[1])),
        sorted([(5120, 5121, 7777, 0, 0, 60)] + [(5120, 38000, i, 0, 0, 60) for i in range(300)] + [(37900, 39000, 1000, 0, 0, 60)] + [(38900, 72000, 2000 + i, 0, 0, 60) for i in range(300)], key=lambda a: (a[0], a[1])),
        [(5120, 5121, i, 0, 0, 60) for i in range(1100)],          # w_corner_pile: a deep cluster of one-base alignments on a bin boundary
    ]
    files += corpus
    cases = fake_proc_cases(ctx, REAL, files)
    cases += fake_proc_cases(ctx, REAL, [f for f in files if len(f) < 40][:60], nbams=2)
    # real BAM files: one chromosome per cluster set
    d = os.path.join(ctx.scratch, "bams"); os.makedirs(d, exist_ok=True)
    sel = [f for f in files if len(f) < 1200][: (60 if quick else 400)] + corpus
    chroms = [("c%d" % i, 200000) for i in range(len(sel))]; recs = []
    for ci, f in enumerate(sel):
        for a in f:
            recs.append(dict(name="c%d_%d" % (ci, a[2]), chr=ci, start=a[0], cigar=span_cigar(a[1] - a[0]), flag=a[3], mapq=a[5]))
    paths = [write_bam(os.path.join(d, "u%d.bam" % j), chroms, recs[j::2]) for j in range(2)] + [write_bam(os.path.join(d, "all.bam"), chroms, recs)]
    nreal = 0
    for pathset in ([paths[2]], paths[:2]):
        pairs = [(pysam.AlignmentFile(p, "rb", require_index=True), p) for p in pathset]
        for ci, f in enumerate(sel):
            byname = {"c%d_%d" % (ci, a[2]): a for a in f}
            order = [byname[a.query_name] for _, a in ap.BAMOnlineMerger(pairs, "c%d" % ci, 0, 200000, multiple_iterators=True).get()]
            for hm in (False, True):
                out, stats = run_process(pairs, "c%d" % ci, 200000, hm)
                if not isinstance(out, tuple): out = [(r, [byname[n][2] for n in ids]) for r, ids in out]
                cases.append(proc_case(REAL, hm, order, out, stats)); nreal += 1
        for b, _ in pairs: b.close()
    ctx.rule("the same through real pysam BAM files (BAMOnlineMerger / htslib fetch, one and two input files) and fake alignments at the REAL constants: %d structured clusters (blocks of 129..200 bins at depth 3 or 260 joined by thin bridges, "
             "block / bridge / tail end points at offsets {0,1,2,127,254,255} to the bin grid, short reads starting in and around the last bin, cluster start on and off a bin boundary, secondary / supplementary records), "
             "7 single-bin pile-ups of 1100 reads, the witnesses of Regions.v; %d runs on real BAMs" % (len(files), nreal))
    mism, viol = ctx.corr("process+forward(real constants, pysam)", PRE_PROC, cases, shard=60, nontrivial=lambda o: not isinstance(o["impl_regions"], tuple) and len(o["impl_regions"]) > 1)
    ctx.corr_report("process+forward(real constants, pysam)", mism, viol, keyfn=proc_key)
    # the one corner proc_prop_prev exempts (theorems C05_no_alignment_lost_*_prev_partial: `~ iq_corner whole a`) is a genuine loss: report it under its own key
    # (on the repaired code proc_prop has no exemption: a lost record is a specification violation of the correspondence above)
    for _term, o in cases:
        out = o["impl_regions"]
        if repaired or isinstance(out, tuple): continue
        seen = set(i for _, ids in out for i in ids)
        lost = [a for a in o["alignments(start,end,id,flag,ref,mapq)"] if a[2] not in seen and a[0] % o["constants"][0] == 0 and a[1] == a[0] + 1]
        if lost:
            ctx.violation(KEY_CORNER, "a one-base alignment on the first base of a cluster that starts on a bin boundary is handed to no sub-region",
                          {"alignments(start,end,id,flag,ref,mapq)": o["alignments(start,end,id,flag,ref,mapq)"][:6], "lost": lost, "regions": [r for r, _ in out], "high_memory": o["high_memory"]})
            break
    ctx.assume.append("htslib/pysam fetch(chr, lo, hi) returns exactly the records overlapping [lo, hi) in file order (the emulation used for the exhaustive stream is compared with real BAM files on the structured stream)")
    ctx.assume.append("input BAM records are coordinate-sorted and have reference_end > reference_start (htslib's bam_endpos); placed unmapped records (reference_end None) are outside the model")

    # ---- 4. InMemoryAlignmentStorage.fill_index
    PRE_IDX = PRE + "Definition check := index_check.\nDefinition prop := index_prop.\n"
    cases = []
    with Consts(SCALED):
        for f in list(grid_files(3, (0, 1, 255), 2)) + more[:(400 if quick else 4000)]:
            for cl in split_clusters(f):
                st = ap.InMemoryAlignmentStorage()
                for a in cl: st.add_alignment(0, FA(*a))
                st.fill_index()
                si = sorted(st.alignment_start_index.items()); ei = sorted(st.alignment_end_index.items())
                cases.append(("((%s, %s), (%s, %s))" % (cz(B), calns([a[:3] for a in cl]), clist(si, civ), clist(ei, civ)),
                              {"bin": B, "stored": [a[:3] for a in cl], "alignment_start_index": si, "alignment_end_index": ei}))
    ctx.rule("InMemoryAlignmentStorage.add_alignment + fill_index on the clusters of the grid / random placements: both index dictionaries compared entry by entry")
    mism, viol = ctx.corr("fill_index", PRE_IDX, cases, shard=1500)
    ctx.corr_report("fill_index", mism, viol)

    # ---- 5. find_duplicates / BasicReadAssignment.__eq__
    PRE_DD = PRE + "Definition check := dedup_check.\nDefinition prop := dedup_prop.\n"
    def mk(read, chrom, start, end, isoforms, region, atype=ReadAssignmentType.unique, aid=0):
        a = BasicReadAssignment.__new__(BasicReadAssignment)
        a.assignment_id = aid; a.read_id = read; a.chr_id = chrom; a.start = start; a.end = end; a.genomic_region = region; a.multimapper = False
        a.polyA_found = False; a.assignment_type = atype; a.gene_assignment_type = atype; a.penalty_score = 0.0; a.isoforms = list(isoforms); a.genes = ["g"]
        return a
    base = ("r1", "chr1", 100, 900, ("t1",), (1, 1024))
    variants = [base, base[:5] + ((1025, 2048),), ("r2",) + base[1:], base[:1] + ("chr2",) + base[2:], base[:2] + (101,) + base[3:], base[:3] + (901,) + base[4:],
                base[:4] + (("t2",),) + base[5:], base[:4] + (("t1", "t2"),) + base[5:], base[:4] + (("t2", "t1"),) + base[5:], base[:4] + ((),) + base[5:]]
    names = {}; intern = lambda s: names.setdefault(s, len(names) + 1)
    def ckey(v): return "(%s, %s, %s, %s, %s)" % (cz(intern(v[0])), cz(intern(v[1])), cz(v[2]), cz(v[3]), czs([intern(t) for t in v[4]]))
    cases = []
    for n in range(0, 5 if quick else 6):
        combos = itertools.product(range(len(variants)), repeat=n)
        if n >= 4:
            combos = list(combos); combos = rnd.sample(combos, min(len(combos), 2500 if quick else 30000))
        for combo in combos:
            # assignment_indices as the callers pass them: all positions, and (select_best_assignment hands over the positions of ONE priority
            # class) proper sub-lists / permuted sub-lists, where the position inside assignment_indices differs from the assignment index
            index_lists = [list(range(n))]
            if n == 2: index_lists += [[1, 0], [1]]
            elif n == 3: index_lists += [[1, 2], [0, 2], [2, 1], [2, 0, 1]]
            elif n >= 4:
                sub = rnd.sample(range(n), rnd.randint(2, n - 1)); index_lists += [sorted(sub), list(range(1, n)), rnd.sample(range(n), n)]
            for idx in index_lists:
                lst = [mk(*variants[i]) for i in combo]
                try: sel = list(MultimapResolver.find_duplicates(lst, list(idx)))
                except Exception as e: sel = [-1]
                cases.append(("((%s, %s), %s)" % (clist([variants[i] for i in combo], ckey), czs(idx), czs(sel)),
                              {"records(read,chr,start,end,isoforms,region)": [variants[i] for i in combo], "assignment_indices": list(idx), "selected": list(sel)}))
    ctx.rule("find_duplicates with BasicReadAssignment.__eq__: every list of <= 3 (sampled: 4) records drawn from 10 records that differ from a base record in exactly one field (read, chromosome, start, end, isoform list / order, processing region), "
             "with assignment_indices = all positions AND proper / permuted sub-lists of the positions (position in assignment_indices != assignment index, as when select_best_assignment passes one priority class); "
             "non-trivial = a duplicate was removed")
    mism, viol = ctx.corr("find_duplicates", PRE_DD, cases, shard=1500, nontrivial=lambda o: len(o["selected"]) < len(o["assignment_indices"]))
    ctx.corr_report("find_duplicates", mism, viol, keyfn=lambda o: "dedup:identical-records-survive")

    # ---- 5b. the whole per-read record flow of one chromosome against coq/Accounting.v
    end_to_end_flow(ctx, quick, more)

    # ---- 6. pipeline: accounting_ok
    pipeline_accounting(ctx, quick)


# ------------------------------------------------------------------------------------------------ end-to-end record flow (Accounting.v)
TYN = {"unique": "Unique", "noninformative": "Noninformative", "intergenic": "Intergenic", "ambiguous": "Ambiguous",
       "unique_minor_difference": "UniqueMinor", "inconsistent": "Inconsistent", "inconsistent_non_intronic": "InconsNonIntronic",
       "inconsistent_ambiguous": "InconsAmbiguous", "suspended": "Suspended"}


def stub_verdict(seed, region, ident):
    """the stub per-region assigner: a deterministic verdict for (sub-region, alignment); None = dropped by a filter.
       For two thirds of the alignments the verdict depends on the alignment only (the same in every sub-region), for the rest on the sub-region too."""
    import random as _r
    per_aln = _r.Random(seed * 1000003 + ident * 7919).random() < .67
    r = _r.Random(seed * 1000003 + ident * 7919 + (0 if per_aln else region[0] * 31 + region[1]))
    if r.random() < .12: return None
    t = r.choice(["unique", "unique", "unique", "ambiguous", "unique_minor_difference", "inconsistent", "inconsistent", "inconsistent_non_intronic",
                  "inconsistent_ambiguous", "noninformative", "intergenic"])
    if t in ("noninformative", "intergenic"): isos = []
    elif t in ("ambiguous", "inconsistent_ambiguous"): isos = r.sample([1, 2, 3, 4], 2)
    else: isos = [r.choice([1, 1, 2, 3])]
    genes = sorted(set(100 + (i + 1) // 2 for i in isos))
    if t == "ambiguous": gty = "ambiguous" if len(genes) > 1 else "unique"
    elif t == "inconsistent_ambiguous": gty = "inconsistent_ambiguous" if len(genes) > 1 else "inconsistent"
    else: gty = t
    return dict(ty=t, gty=gty, pen4=r.choice([0, 0, -4, -8]), isos=isos, genes=genes)


def end_to_end_flow(ctx, quick, files):
    """process -> forward_alignments -> stub assigner -> BasicReadAssignment records (ids in processing order) -> per-read lists ->
       MultimapResolver.resolve -> the loader's rule (a read with several records keeps those whose resolved type is not `suspended`)"""
    from src.multimap_resolver import MultimapResolver, MultimapResolvingStrategy
    from src.isoform_assignment import BasicReadAssignment, ReadAssignmentType
    rnd = ctx.rnd
    import logging
    lg = logging.getLogger('IsoQuant'); old_level = lg.level; lg.setLevel(logging.ERROR)      # the resolver logs every duplicate it drops
    def crec(st):
        return "(mkrec %s %s 1 %s %s (%s,%s) %s %s %s %s %s %s %s)" % (cz(st[0]), cz(st[1]), cz(st[3]), cz(st[4]), cz(st[5]), cz(st[6]), cbool(st[7]), cbool(st[8]),
                                                                       TYN[ReadAssignmentType(st[9]).name], TYN[ReadAssignmentType(st[10]).name], cz(int(round(st[11] * 4))), czs(st[12]), czs(st[13]))
    def cvd(v):
        return "None" if v is None else "(Some (mkvd %s %s %s %s %s))" % (TYN[v["ty"]], TYN[v["gty"]], cz(v["pen4"]), czs(v["isos"]), czs(v["genes"]))
    cases = []
    sel = files[:(900 if quick else 6000)] + [f for f in grid_files(3, (0, 255), 2)][:200]
    for n, file in enumerate(sel):
        k = (SCALED, (256, 512, 1, 1, 1, 100), (16, 48, 2, 1, 1, 100))[n % 3]
        if k[0] == 16: file = [(a[0] // 16, max(a[0] // 16 + 1, a[1] // 16)) + tuple(a[2:]) for a in file]
        hm = bool(n % 2); seed = n
        nreads = max(1, (len(file) + 1) // 2)
        reads = {a[2]: rnd.randrange(nreads) + 1 for a in file}
        with Consts(k):
            out, _ = run_process([(FakeBam([FA(*a) for a in file]), "f0")], "c", 10 ** 7, hm)
        if isinstance(out, tuple): continue                        # raising runs are the subject of the process+forward correspondence
        byid = {a[2]: a for a in file}
        vt = []; stream = []; objs = []; per_read = collections.OrderedDict()
        for region, ids in out:
            for i in ids:
                v = stub_verdict(seed, region, i); vt.append(((region[0], region[1], i), v))
                if v is None: continue
                a = byid[i]; b = BasicReadAssignment.__new__(BasicReadAssignment)
                b.__setstate__((len(objs), reads[i], "c", a[0] + 1, a[1], region[0], region[1], bool(a[3] & 256), False, ReadAssignmentType[v["ty"]].value,
                                ReadAssignmentType[v["gty"]].value, v["pen4"] / 4.0, list(v["isos"]), list(v["genes"])))
                stream.append(b.__getstate__()); objs.append(b); per_read.setdefault(reads[i], []).append(b)
        stream = [tuple(list(x) if isinstance(x, list) else x for x in st) for st in stream]
        failed = None
        for rid, lst in per_read.items():
            if len(lst) > 1:
                try: MultimapResolver(MultimapResolvingStrategy.take_best).resolve(lst)
                except Exception as e: failed = type(e).__name__
        kept = [(b.assignment_id, (b.assignment_type.name, b.gene_assignment_type.name, bool(b.multimapper))) for b in objs
                if len(per_read[b.read_id]) <= 1 or b.assignment_type != ReadAssignmentType.suspended]
        if failed: kept = [(-1, ("suspended", "suspended", False))]
        seen = set(); vt = [x for x in vt if not (x[0] in seen or seen.add(x[0]))]
        term = "((%s, %s, %s, %s, %s, %s), (%s, %s))" % (
            cconsts(k), cbool(hm), calns([a[:3] for a in file]), clist(sorted(reads.items()), civ), czs([a[2] for a in file if a[3] & 256]),
            clist(vt, lambda x: "((%s, %s, %s), %s)" % (cz(x[0][0]), cz(x[0][1]), cz(x[0][2]), cvd(x[1]))),
            clist(stream, crec), clist(kept, lambda x: "(%s, (%s, %s, %s))" % (cz(x[0]), TYN[x[1][0]], TYN[x[1][1]], cbool(x[1][2]))))
        cases.append((term, {"constants": k, "high_memory": hm, "alignments(start,end,id,flag,ref,mapq)": file, "read_of_alignment": reads, "regions_and_ids": out,
                             "stub_verdicts": vt, "save_stream(__getstate__)": stream, "kept(assignment_id,(type,gene_type,multimapper))": kept, "resolver_raised": failed}))
    ctx.rule("end-to-end record flow of one chromosome (coq/Accounting.v): %d fake-alignment files (random placements with multiplicities and secondary flags, every multiset of 2 alignments on a 3-bin grid; three scalings of the constants, "
             "both memory modes, 1-2 alignments per read id) through the REAL process / forward_alignments / storages, a stub assigner with a deterministic verdict per (sub-region, alignment) (12%% dropped; for a third of the alignments "
             "it differs between sub-regions), real BasicReadAssignment records numbered in processing order, real MultimapResolver.resolve per read, and the loader's rule; the save stream and the kept (id, types, flag) list must equal "
             "Accounting.acc_model; specification on the implementation's lists: every read with a record keeps one, two kept records of a read never share the key, every alignment the stub never drops has a record; "
             "non-trivial = some record was suppressed" % len(cases))
    lg.setLevel(old_level)
    mism, viol = ctx.corr("end_to_end_record_flow", "From IQ Require Import Multimap2 Regions Accounting.\nOpen Scope Z_scope.\nDefinition check := acc_check.\nDefinition prop := acc_prop.\n",
                          cases, shard=100, ctype="(Z*Z*Z*Z*Z*Z * bool * list (Z*Z*Z) * list (Z*Z) * list Z * list ((Z*Z*Z) * option vd)) * (list rec * list (Z * (atype*atype*bool)))", nontrivial=lambda o: len(o["kept(assignment_id,(type,gene_type,multimapper))"]) < len(o["save_stream(__getstate__)"]))
    ctx.corr_report("end_to_end_record_flow", mism, viol)
    ctx.assume.append("end_to_end_record_flow: the loader's rule (records of a multi-record read whose resolved type is `suspended` are dropped, the others carry the resolver's types and flag) is applied by the harness; "
                      "the real ReadAssignmentLoader / multimapper files are corresponded by C08 (loader_path)")


def split_clusters(file):
    """clusters of a sorted file by overlap with the running hull (harness-side helper for the index correspondence only)"""
    out = []; cur = []; hull = None
    for a in file:
        if hull is not None and (hull[1] < a[0] or hull[0] > a[1] - 1):
            out.append(cur); cur = []; hull = None
        cur.append(a); hull = (a[0], a[1] - 1) if hull is None else (min(hull[0], a[0]), max(hull[1], a[1] - 1))
    if cur: out.append(cur)
    return out


# ------------------------------------------------------------------------------------------------ pipeline level
MAPQ_LADDER = (2, 3, 4, 5, 19, 20, 21, 60)


def make_world(rnd, seed):
    """chromosomes with the coverage shapes of the property's quantifier; returns (chroms, records, genes)"""
    chroms = []; recs = []; genes = []
    def chrom(name, length): chroms.append((name, length)); return len(chroms) - 1
    def read(ci, name, start, length, flag=0, mapq=60, cigar=None):
        recs.append(dict(name=name, chr=ci, start=start, cigar=cigar or span_cigar(length), flag=flag, mapq=mapq))
    # chrP: >= 1024 short reads inside one 256-bp bin + control reads elsewhere (finding #21)
    c = chrom("chrP", 30000)
    for i in range(1100): read(c, "pile%d" % i, 20 * B + 30 + i % 50, 80)
    for i in range(20): read(c, "ctrl%d" % i, 15000 + 7 * i, 600)
    genes.append(("chrP", "GP", "+", [(15001, 15800)]))
    # chrT: two deep loci joined by one read (valley), coverage dropping to 1% on the last bin where a short read starts (#8, #7)
    c = chrom("chrT", 120000)
    for i in range(300): read(c, "ta%d" % i, 5000 + i % 7, 33000 - i % 7)
    read(c, "tbridge", 37900, 1100)
    for i in range(300): read(c, "tb%d" % i, 38900 + i % 5, 33100 - i % 5)
    for i in range(4): read(c, "tm%d" % i, 71900, 540)
    read(c, "tm4", 72300, 160); read(c, "ttail", 72450, 50)
    genes += [("chrT", "GT1", "+", [(5001, 5500), (37501, 38000)]), ("chrT", "GT2", "+", [(38901, 39400), (71501, 72000)])]
    # chrL: a locus longer than 32 kb with few reads (split by length), reads bridging two genes across the valley, short reads at the tail
    c = chrom("chrL", 150000)
    for i in range(6): read(c, "la%d" % i, 10000 + 3 * i, 34000)
    for i in range(3): read(c, "lbridge%d" % i, 43800 + 10 * i, 900, cigar=[(0, 300), (3, 300), (0, 300)])
    for i in range(6): read(c, "lb%d" % i, 44500 + 2 * i, 36000)
    read(c, "ltail1", 80400, 90); read(c, "ltail2", 80480, 30); read(c, "ltail3", 80505, 3)
    genes += [("chrL", "GL1", "-", [(10001, 10500), (43501, 44100)]), ("chrL", "GL2", "+", [(44401, 45000), (80001, 80500)])]
    # chrF: records the filters must drop or count: secondary, supplementary, unmapped, low MAPQ; a duplicated read name in two regions
    c = chrom("chrF", 60000)
    for i in range(30): read(c, "f%d" % i, 3000 + 11 * i, 700)
    for i in range(5): read(c, "fsupp%d" % i, 3100 + i, 650, flag=2048)
    for i in range(5): read(c, "fsec%d" % i, 3200 + i, 650, flag=256, mapq=0)
    for i in range(4): read(c, "flow%d" % i, 3300 + i, 650, mapq=0)
    for i in range(4): read(c, "fmid%d" % i, 3350 + i, 650, mapq=3)
    for i in range(3): recs.append(dict(name="unmapped%d" % i, chr=None, flag=4))
    for i in range(5): read(c, "f%d" % i, 30000 + 13 * i, 800, flag=256, mapq=0)      # secondary alignment of f0..f4 at another locus
    genes.append(("chrF", "GF", "+", [(3001, 4200)]))
    # chrD: a read whose primary alignment spans a sub-region border (two exons 40 kb apart, coverage valley in the intron: processed in both sub-regions,
    # two identical records that find_duplicates must reduce to one) and that has a secondary alignment in an upstream gene-free locus, so that the
    # per-read list holds a record of a worse class BEFORE the two copies (the copies' indices differ from their positions in the index list);
    # it must stay the only alignment across the intron: coverage 1 there is the valley (ABS_COV_VALLEY) at which the 40-kb locus is cut
    c = chrom("chrD", 70000)
    read(c, "dspan", 2000, 0, flag=256, mapq=0, cigar=[(0, 300), (3, 200), (0, 300), (3, 200), (0, 300)])
    read(c, "dspan", 10000, 0, cigar=[(0, 500), (3, 39500), (0, 500)])
    for i, (s0, ln) in enumerate(((10020, 460), (50010, 480), (10100, 400))): read(c, "dshort%d" % i, s0, ln)
    genes.append(("chrD", "GD", "+", [(10001, 10500), (50001, 50500)]))
    # chrQ: MAPQ exactly at / one below / one above the values used with an explicit --min_mapq (3 and 20), inside an annotated gene (exact matches of
    # its isoform) and in gene-free loci (three-exon and unspliced alignments)
    c = chrom("chrQ", 40000)
    for i, q in enumerate(MAPQ_LADDER):
        read(c, "qgene_%d" % q, 2000 + i, 0, mapq=q, cigar=[(0, 300 - i), (3, 400), (0, 300 - i)])
        read(c, "qfree3_%d" % q, 10000 + i, 0, mapq=q, cigar=[(0, 400 - i), (3, 600), (0, 300), (3, 700), (0, 400 - i)])
        read(c, "qfree1_%d" % q, 20000 + 3 * i, 700, mapq=q)
    genes.append(("chrQ", "GQ", "+", [(2001, 2300), (2701, 3000)]))
    # chrR: random clusters that the real constants split
    c = chrom("chrR", 400000); pos = 2000
    for k, f in enumerate(structured_real(rnd, 4, depth_choices=(3, 4, 40))):
        shift = pos - min(a[0] for a in f)
        for a in f:
            if a[1] - a[0] >= 2 and not a[3]: read(c, "r%d_%d" % (k, a[2]), a[0] + shift, a[1] - a[0])
        pos = max(a[1] for a in f) + shift + 3000
    return chroms, recs, genes


def pipeline_accounting(ctx, quick):
    import pysam
    import pipeline as P
    d = P.scratch("iqc05_"); rnd = ctx.rnd
    try:
        chroms, recs, genes = make_world(rnd, ctx.seed)
        # reference: random sequence; read sequences are copied from it
        g = {name: "".join(rnd.choice("ACGT") for _ in range(length)) for name, length in chroms}
        with open(os.path.join(d, "genome.fa"), "w") as f:
            for name, _ in chroms: f.write(">%s\n" % name + "\n".join(g[name][i:i + 80] for i in range(0, len(g[name]), 80)) + "\n")
        for r in recs:
            if r.get("chr") is None: continue
            s = g[chroms[r["chr"]][0]]; pos = r["start"]; q = []
            for op, l in r["cigar"]:
                if op == 0: q.append(s[pos:pos + l]); pos += l
                elif op in (2, 3): pos += l
            r["seq"] = "".join(q)
        bam = write_bam(os.path.join(d, "reads.bam"), chroms, recs)
        gtf = os.path.join(d, "ann.gtf")
        with open(gtf, "w") as f:
            for chrom, gid, strand, exons in genes:
                f.write('%s\tsyn\tgene\t%d\t%d\t.\t%s\t.\tgene_id "%s";\n' % (chrom, exons[0][0], exons[-1][1], strand, gid))
                f.write('%s\tsyn\ttranscript\t%d\t%d\t.\t%s\t.\tgene_id "%s"; transcript_id "%s.T";\n' % (chrom, exons[0][0], exons[-1][1], strand, gid, gid))
                for a, b in exons: f.write('%s\tsyn\texon\t%d\t%d\t.\t%s\t.\tgene_id "%s"; transcript_id "%s.T";\n' % (chrom, a, b, strand, gid, gid))
        # the input as the property sees it: every record of the BAM
        names = {}; intern = lambda s: names.setdefault(s, len(names) + 1)
        inp = []
        with pysam.AlignmentFile(bam, "rb") as bf:
            for a in bf.fetch(until_eof=True): inp.append((intern(a.query_name), (a.flag, a.reference_id, a.mapping_quality)))
        # (high_memory, annotation, explicit --min_mapq or None)
        configs = [(hm, gdb, None) for hm in (False, True) for gdb in (False, True)] + [(False, True, 20), (True, False, 3)]
        cases = []
        for hm, gdb, mq in configs:
            out = os.path.join(d, "out_%d%d_%s" % (hm, gdb, mq))
            args = ["--reference", os.path.join(d, "genome.fa"), "--bam", bam, "--data_type", "nanopore", "--threads", "2", "-p", "OUT"]
            if hm: args.append("--high_memory")
            if gdb: args += ["--genedb", gtf, "--complete_genedb"]
            if mq is not None: args += ["--min_mapq", str(mq)]
            # the documented MAPQ cut-offs as the source applies them: --min_mapq N drops MAPQ < N everywhere (so a primary alignment with MAPQ >= N and
            # above the two conditional cut-offs MUST be reported); --inconsistent_mapq_cutoff (default 5) only concerns assignments to annotated isoforms,
            # i.e. it never applies in a run without --genedb (0 there); --simple_alignments_mapq_cutoff (default 1) applies to <= 2-exon alignments in gene-free regions
            cut = (False, mq or 0, 5 if gdb else 0, 1)
            rc, log = P.run_isoquant(out, args); ctx.cov["pipeline_runs"] += 1
            replay = {"pipeline": "generated BAM (VERIF_SEED=%d): chrP single-bin pile-up, chrT valley on the last bin, chrL >32 kb locus with bridging and tail reads, chrF filtered categories, chrR random" % ctx.seed,
                      "args": [a.replace(d, "<dir>") for a in args]}
            if rc != 0:
                ctx.violation(None, "isoquant.py exits %d on the generated coverage profiles" % rc, dict(replay, log_tail=log[-1500:])); continue
            bedp = P.find(out, "OUT", "corrected_reads.bed"); tsvp = P.find(out, "OUT", "read_assignments.tsv")
            lines = {}; lintern = lambda s: lines.setdefault(s, len(lines) + 1)
            bed_ids = []; bed_lines = []
            for l in P.opn(bedp):
                if l.startswith("#") or not l.strip(): continue
                bed_ids.append(intern(l.split("\t")[3])); bed_lines.append(lintern("B" + l))
            tsv_ids = None; tsv_lines = []
            if gdb:
                if tsvp is None:
                    ctx.violation(None, "no read_assignments.tsv in an annotated run", replay); continue
                tsv_ids = []
                for l in P.opn(tsvp):
                    if l.startswith("#") or not l.strip(): continue
                    tsv_ids.append(intern(l.split("\t")[0])); tsv_lines.append(lintern("T" + l))
            logtxt = open(os.path.join(out, "isoquant.log")).read()
            st = {k: 0 for k in ("primary", "secondary", "supplementary", "unaligned")}
            m = re.search(r"overall alignment statistics:\n((?:.*- INFO - \w+: \d+\n)+)", logtxt)
            if not m:
                ctx.violation(None, "alignment statistics missing from isoquant.log", replay); continue
            for k, v in re.findall(r"- INFO - (\w+): (\d+)", m.group(1)): st[k] = int(v)
            term = "{| ac_input := %s; ac_cut := (%s, %d, %d, %d); ac_bed := %s; ac_tsv := %s; ac_bed_lines := %s; ac_tsv_lines := %s; ac_log := (%d, %d, %d, %d) |}" % (
                clist(inp, lambda r: "(%s, %s)" % (cz(r[0]), cbrec(r[1]))), cbool(cut[0]), cut[1], cut[2], cut[3], czs(bed_ids), copt(tsv_ids, czs), czs(bed_lines), czs(tsv_lines),
                st["primary"], st["secondary"], st["supplementary"], st["unaligned"])
            # a readable diagnosis for the replay file
            must = {n for n, (fl, ref, q) in inp if ref != -1 and not fl & 2048 and not fl & 256 and q >= max(cut[1:])}
            rev = {v: k for k, v in names.items()}; cnt_lines = collections.Counter(bed_lines + tsv_lines)
            diag = dict(replay, input_records=len(inp), reads_that_must_be_reported=len(must), bed_distinct=len(set(bed_ids)), bed_lines=len(bed_ids),
                        missing_from_bed=sorted(rev[x] for x in must - set(bed_ids))[:12], n_missing=len(must - set(bed_ids)),
                        missing_from_tsv=sorted(rev[x] for x in must - set(tsv_ids))[:12] if tsv_ids is not None else None,
                        duplicated_bed_lines=len(bed_lines) - len(set(bed_lines)), duplicated_tsv_lines=len(tsv_lines) - len(set(tsv_lines)), duplicated_bed_records=[l[1:].rstrip("\n") for l, k in lines.items() if l[0] == "B" and cnt_lines[k] > 1][:4],
                        duplicated_tsv_records=[l[1:].rstrip("\n") for l, k in lines.items() if l[0] == "T" and cnt_lines[k] > 1][:4],
                        logged=st, high_memory=hm, genedb=gdb, min_mapq=mq, cut_offs_of_the_specification=cut)
            cases.append((term, diag))
        def acc_key(o):
            miss = o["missing_from_bed"] + (o["missing_from_tsv"] or [])
            if o["duplicated_bed_lines"] or o["duplicated_tsv_lines"]: return "dedup:identical-records-survive"
            if any(x.startswith("q") for x in miss): return "filter:mapq-cutoff"
            if any(x.startswith("pile") for x in miss): return "split:no-region"
            if any(x in ("ttail", "ltail2", "ltail3") or re.match(r"r\d", x) for x in miss):
                return "inmemory:start-in-last-bin" if o["high_memory"] else "split:last-bin-without-region"
            return None
        ctx.rule("pipeline: one generated BAM (%d records on 7 chromosomes: 1100 reads of 80 bp inside one bin + controls; two 33-kb loci at depth 300 joined by one read with coverage falling to 1%% on the last bin where a 50-bp read starts; "
                 "a 70-kb locus of 15 reads split by length with reads bridging two genes at the valley and 3..90-bp reads at the tail; secondary / supplementary / unmapped / MAPQ 0 / MAPQ 3 records and a read with a secondary alignment "
                 "at a second locus; a read whose primary alignment spans a sub-region border and whose secondary alignment lies in an upstream locus; alignments with MAPQ 2,3,4,5,19,20,21,60 inside an annotated gene and in gene-free loci; random clusters) "
                 "through isoquant.py in default and --high_memory mode, with and without --genedb, plus --min_mapq 20 (annotated, default memory) and --min_mapq 3 (no annotation, --high_memory); Coq evaluates accounting_ok on the BED / TSV / log "
                 "of every run with the cut-offs of that run: (no_secondary, min_mapq as given, inconsistent_mapq_cutoff = 5 with annotation and not applicable without, simple_alignments_mapq_cutoff = 1)" % len(inp))
        mism, viol = ctx.corr("pipeline accounting_ok", PRE + "Definition check (c:acc_case) := true.\nDefinition prop := accounting_ok.\n", cases, shard=1, timeout=900)
        ctx.corr_report("pipeline accounting_ok", mism, viol, keyfn=acc_key, what="accounting_ok (read ids of BED/TSV vs. input, identical lines, logged statistics)")
        ctx.assume.append("pysam reading of the input BAM (flags, reference ids, MAPQ) for the accounting specification; parsers of BED / TSV / log lines in the harness")
    finally:
        shutil.rmtree(d, ignore_errors=True)
