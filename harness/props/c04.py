"""C04 - novel transcripts are evidence-backed, correctly labelled and non-redundant.

Unit level (real code of src/intron_graph.py, src/graph_based_model_construction.py, src/gene_info.py against coq/Graph.v):
  strand_functions      StrandDetector.get_strand / get_clean_strand on every strand vector of <= 4 introns x polyA x polyT
  decide                the REAL construct_fl_isoforms (path storage and assigner stubbed) on an exhaustive small domain and on random loci
  graph_system          the REAL IntronCollector / IntronGraph / IntronPathProcessor objects driven through random valid mutator sequences
                        (cluster_introns, add_edge, collapse_vertex, discard, simplify_correction_map, thread_introns), logged by the same
                        recorder as the pipeline wrapper and validated as runs of the abstract system
  cluster               collect_introns + cluster_introns (REAL) against the executable model GraphCluster.cluster on exhaustive small multisets of (intron, count)
  collapse_vertex_set   the REAL decision which vertex of a set is collapsed into which against GraphPasses.collapse_vertex_set, exhaustive small sets
  collector             the REAL IntronCollector.add_substitute / discard / simplify_correction_map driven directly through every short valid call sequence
                        (substitution chains, substitutes discarded afterwards) and IntronPathProcessor.thread_introns on the result
  detect_similar        the REAL detect_similar_isoforms on small model sets (assigner stubbed): which models may be absorbed
Pipeline level: harness/c04_wrapper.py logs every mutator call of the real graph, every decision of construct_fl_isoforms and the model
store during real runs (bundled data, generated worlds with novel-chain reads, annotation-free runs, --report_canonical all, every
--model_construction_strategy): Coq validates each logged region as a run of the abstract system and evaluates novel_ok (Appendix E) on the
parsed output files."""
import itertools, os, re, shutil, types, collections, json, glob, time
from lib import *

WRAPPER = os.path.join(VERIF, "harness", "c04_wrapper.py")
KEY_DUP = "C04:same-chain-alternative-ends"
KEY_DOT = "C04:dot-strand-report-all"

PRE = "From IQ Require Import Exons Graph.\nOpen Scope Z_scope.\n"


def section_rnd(ctx, name):
    import random
    return random.Random("%d:%s" % (ctx.seed, name))


class Codes:
    def __init__(self, ordered=()):
        self.d = {s: i for i, s in enumerate(sorted(set(ordered)))}
    def __call__(self, s):
        if s not in self.d: self.d[s] = len(self.d)
        return self.d[s]


def tiv(v): return (int(v[0]), int(v[1]))
def civs_(l): return clist([tiv(x) for x in l], civ)
def cpairs(l): return clist(l, lambda e: "(%s,%s)" % (civ(tiv(e[0])), civ(tiv(e[1]))))
def cchains(l): return clist(l, civs_)
def cstrand(s): return {"+": "Plus", "-": "Minus"}.get(s, "Dot")
def cop(o):
    k = o[0]
    if k in ("AddVertex", "ClusterDiscard", "Discard", "DropOut", "CutOut"): return "(%s %s)" % (k, civ(tiv(o[1])))
    if k in ("ClusterSubst", "AddEdge", "Collapse", "AddSubstitute"): return "(%s %s %s)" % (k, civ(tiv(o[1])), civ(tiv(o[2])))
    if k == "SimplifyMap": return "SimplifyMap"
    if k == "Snap": return "(Snap %s %s %s %s)" % (civs_(o[1]), cpairs(o[2]), civs_(o[3]), cpairs(o[4]))
    if k == "Touch": return "(Touch %s)" % civ(tiv(o[1]))
    return "Raw"
def creads(reads): return clist(reads, lambda r: "(%s, %s)" % (cbool(r[0]), civs_(r[1])))


# ------------------------------------------------------------------ logged region -> Coq cases
def plain_ops(ops):
    """the mutator steps and snapshots: logged decisions (calls of collapse_vertex_set) are not steps of the abstract system"""
    return [o for o in ops if o[0] not in ("Cvs", "Iso")]

def cxev(o):
    if o[0] == "Cvs": return "(XCvs %s %s %s %s %s)" % (cbool(o[1]), civ(tiv(o[2])), civs_(o[3]), czs(o[4]) if o[4] else "(@nil Z)", cpairs(o[5]))
    if o[0] == "Iso": return "(XIso %s %s %s)" % (civs_(o[1]), czs(o[2]) if o[2] else "(@nil Z)", cpairs(o[3]))
    return "(XOp %s)" % cop(o)

def cpasses(g, main_ops):
    """(gparams, events after the clustering prefix, clustered_introns after simplify) for GraphPasses.passes_ok"""
    import fractions
    gp = g["gparams"]; fr = fractions.Fraction(gp["ratio"])
    k = next((i for i, o in enumerate(main_ops) if o[0] == "Snap"), len(main_ops))
    return "((mkGP %s %s %s %s %s), %s, %s)" % (cz(gp["dist"]), cz(fr.numerator), cz(fr.denominator), cz(gp["iso"]), civs_(g["known"]), clist(main_ops[k:], cxev), ccounts(g["counts_end"]))

def cfill(g, paths, fl, pp):
    """(finished graph, parameters, reads as IntronPathStorage.fill sees them, path_storage.paths with counts, path_storage.fl_paths) for GraphPaths.fill_trace_ok"""
    tout = [t for t in g["terminal"] if t[1][0] in (-10, -11)]; tin = [t for t in g["terminal"] if t[1][0] in (-20, -21)]
    xr = clist(g["xreads"], lambda r: "(mkXR %s %s %s %s %s %s)" % (cbool(r[0]), civs_(r[1]), cz(r[2]), cz(r[3]), cbool(r[4]), cbool(r[5])))
    return "((mkF %s %s %s %s), (mkPP %s %s %s), %s, %s, %s)" % (cpairs(g["out_edges"]), cpairs(g["inc_edges"]), cpairs(tout), cpairs(tin), cz(pp["delta"]), cz(pp["apa_delta"]), cbool(pp["requires_polya"]), xr,
                                                                 clist(paths, lambda e: "(%s, %s)" % (civs_(e[0]), cz(e[1]))), cchains(fl))

def split_touches(ops):
    """defaultdict look-ups of clustered_introns (attach_terminal_positions, collapse_vertex_set on a stale neighbour set) re-create removed introns as zero-count
    keys: they are steps of their own (Touch); returns (all steps, the re-created keys still present at the end, final snapshot)"""
    final = next(o for o in reversed(ops) if o[0] == "Snap")
    fv = set(tuple(v) for v in final[1]); touched = []
    for o in ops:
        if o[0] == "Touch" and tuple(o[1]) in fv and o[1] not in touched: touched.append(o[1])
    return ops, touched, final

def region_case(rec, replay):
    g = rec["graph"]
    all_main, touched, final = split_touches(g["ops"])
    ops = plain_ops(all_main)
    fl = rec.get("fl") or {}
    refs = [c for _, c in fl.get("ref_chains", [])]
    known = [kp for kp, _ in fl.get("known_paths", [])]
    threads = []
    for d in fl.get("decisions", []):
        if "error" in d: continue
        ip = d["path"][1:-1]
        for ri in d["read_introns"]: threads.append((ri, ip))
    term = "(mkR %s %s (%s, %s, %s) %s %s %s %s)" % (creads(g["reads"]), clist(ops, cop), civs_(final[1]), cpairs(final[2]), civs_(final[3]), cchains(refs), cchains(known),
                                                     clist(threads, lambda t: "(%s, %s)" % (civs_(t[0]), civs_(t[1]))), civs_(touched))
    term = "(%s, %s, %s, %s, %s, %s)" % (civs_(g["known"]), cz(g["delta"]), cz(g["min_count"]), term, cpasses(g, all_main), cfill(g, rec["paths"], rec["fl_paths"], rec["pparams"]))
    kinds = collections.Counter(o[0] for o in all_main); kinds["Touch"] = len(touched)
    obj = dict(replay, region=rec["region"], chr=rec["chr"], seq=rec["seq"], n_reads=len(g["reads"]), ops=dict(kinds), n_vertices=len(final[1]), n_threads=len(threads), touched=touched,
               raw_ops=[o for o in ops if o[0] == "Raw"][:5], late_ops=rec.get("late_ops", [])[:5], nontrivial=kinds.get("Collapse", 0) + kinds.get("Discard", 0) + kinds.get("ClusterSubst", 0) > 0)
    return term, obj


LEVELS = {"only_canonical": "OnlyCanonical", "only_stranded": "OnlyStranded", "all": "ReportAll"}

def cparams(p):
    return "(mkP %s %s %s %s %s)" % (cz(p["min_novel_count"]), cz(p["min_known_count"]), cbool(p["require_monointronic_polya"]), LEVELS[p["report"]], cbool(p["use_technical_replicas"]))

def decision_cases(rec, replay, per_region=False):
    from src.intron_graph import VERTEX_polya, VERTEX_polyt
    fl = rec.get("fl")
    if not fl: return []
    out = []
    genec = Codes(list(fl["gene_strands"]) + [g for d in fl["decisions"] if "error" not in d for _, gs in d["intron_genes"] for g in gs])
    ref_ids = [t for t, _ in fl["ref_chains"]]; refs = [c for _, c in fl["ref_chains"]]
    known = rec["graph"]["known"]
    ctx_term = "(mkC %s %s %s %s)" % (cbool(fl["empty"]), clist(sorted(fl["gene_strands"].items(), key=lambda e: genec(e[0])), lambda e: "(%s, %s)" % (cz(genec(e[0])), cstrand(e[1]))),
                                      civs_(known), cchains([kp for kp, _ in fl["known_paths"]]))
    verts = split_touches(rec["graph"]["ops"])[2][1]
    items = []
    for d in fl["decisions"]:
        if "error" in d:
            out.append((None, dict(replay, region=rec["region"], error=d["error"]))); continue
        p = d["path"]; ip = p[1:-1]
        m = "(Some %s)" % cz(ref_ids.index(d["ref"]) if d["ref"] in ref_ids else -1) if d["matching"] else "None"
        path = "(mkPath %s %s %s %s %s %s %s %s [] %s)" % (civ((p[0][1], p[-1][1])), cbool(p[0][0] == VERTEX_polyt), cbool(p[-1][0] == VERTEX_polya), civs_(ip), cz(d["count"]), m,
                                                          cz(d["fwd"]), cz(d["rev"]), cz(d["n_read_groups"]))
        o = d["out"]
        if o is None: co = "ONone"
        elif o["kind"] == "known": co = "OKnown"
        else:
            gene = "(RefGene %s)" % cz(genec(o["gene"])) if o["gene"] in fl["gene_strands"] else "NovelGene"
            if gene == "NovelGene" and not o["gene"].startswith("novel_gene_"): gene = "(RefGene (-1))"
            sfx = 0 if o["tid"].endswith(".nic") else 1 if o["tid"].endswith(".nnic") else 2
            co = "(ONovel %s %s %s %s)" % (cstrand(o["strand"]), gene, cbool(o["type"] == "novel_in_catalog"), cz(sfx))
        ig = clist(d["intron_genes"], lambda e: "(%s, %s)" % (civ(tiv(e[0])), czs([genec(g) for g in e[1]])))
        term = "(mkD %s %s %s %s %s %s %s)" % (cparams(fl["params"]), ctx_term, ig, path, civs_(verts), cchains(refs), co)
        items.append("(%s, %s, %s)" % (ig, path, co))
        out.append((term, dict(replay, region=rec["region"], chr=rec["chr"], path=p, count=d["count"], matching=d["matching"], ref=d["ref"], in_known=d["in_known"], fwd=d["fwd"], rev=d["rev"],
                               params=fl["params"], votes=d["votes"], impl=o, novel=bool(o and o["kind"] == "novel"))))
    if per_region:
        good = [x for x in out if x[0] is not None]
        if not good: return [x for x in out if x[0] is None]
        term = "(mkRD %s %s %s %s %s)" % (cparams(fl["params"]), ctx_term, civs_(verts), cchains(refs), clist(items))
        return [x for x in out if x[0] is None] + [(term, dict(replay, region=rec["region"], chr=rec["chr"], n_paths=len(good), n_novel=sum(1 for _, o in good if o["novel"]), _items=good))]
    return out


def store_case(rec, replay, mnc):
    tidc = Codes(); rc = Codes()
    ops = []; added = set()
    for e in rec["store"]:
        if e[0] == "Save":
            if e[1] not in added and e[3] is not None:
                added.add(e[1]); ops.append("(SAdd %s %s)" % (cz(tidc(e[1])), cbool(e[3])))
            ops.append("(SSave %s %s)" % (cz(tidc(e[1])), cz(rc(e[2]))))
        elif e[0] == "Del": ops.append("(SDel %s)" % cz(tidc(e[1])))
        elif e[0] == "Assign": ops.append("(SAssign %s %s)" % (cz(rc(e[1])), czs([tidc(t) for t in e[2]])))
        elif e[0] in ("Storage", "Begin", "End"):
            ids_ = e[1] if e[0] == "Storage" else e[2]
            ops.append("(SModels %s)" % czs([tidc(t) for t, _ in ids_]))
            if e[0] == "End" and e[1] == "filter_transcripts":
                ops.append("(SCut %s)" % cz(mnc))
                for t, _ in ids_: ops.append("(SCnt %s %s)" % (cz(tidc(t)), cz(e[3].get(t, 0))))
    final = [(tidc(t), nv) for t, nv in rec["final_storage"]]
    table = [(tidc(t), rc(r)) for t, rs in rec["r2t"] for r in rs]
    term = "(%s, %s, %s)" % (clist(ops), clist(final, lambda m: "(%s, %s)" % (cz(m[0]), cbool(m[1]))), clist(table, lambda e: "(%s, %s)" % (cz(e[0]), cz(e[1]))))
    return term, dict(replay, region=rec["region"], chr=rec["chr"], n_ops=len(ops), final=rec["final_storage"], n_rows=len(table), nontrivial=any(e[0] == "Del" for e in rec["store"]))

FILL_T = "(fgraph * pparams * list xread * list (list iv * Z) * list (list iv))"
PRE_REGION = "From IQ Require Import Exons Graph GraphCluster GraphPasses GraphPaths.\nOpen Scope Z_scope.\n" + """Definition T := (list iv * Z * Z * region * (gparams * list xevent * list (iv * Z)) * %s)%%type.
Definition check (c : T) : bool := let '(known, delta, mnc, r, (P, evs, fc), (G, PP, xr, paths, fl)) := c in
  region_check r && cluster_trace_ok known delta mnc r && passes_ok P delta mnc (r_reads r) evs fc && fill_trace_ok (r_reads r) (r_ops r) G PP xr paths fl.
Definition prop (c : T) : bool := let '(known, delta, mnc, r, x, y) := c in region_prop r.
""" % FILL_T
PRE_DECISION = PRE + "Definition check := decision_check.\nDefinition prop := decision_prop.\n"
PRE_RDECISION = PRE + "Definition check := rdecisions_check.\nDefinition prop := rdecisions_prop.\n"
PRE_GROUP = PRE + "Definition T := (octx * list omodel)%type.\nDefinition check (c : T) : bool := true.\nDefinition prop (c : T) : bool := novel_ok_all (fst c) (snd c).\n"
PRE_STORE = PRE + """Definition T := (list sop * list (Z * bool) * list (Z * Z))%type.
Definition check (c : T) : bool := let '(ops, final, table) := c in valid_store ops (map fst final) table.
Definition prop (c : T) : bool := let '(ops, final, table) := c in store_prop final table.
"""

# ------------------------------------------------------------------ output files -> novel_ok
STRAND_CODE = {"+": 0, "-": 1, ".": 2}

def comodel(m):
    return "(mkOM %s %s %s %s %s)" % (cz(m["strand_code"]), cz(m["suffix"]), cbool(m["gene_novel"]), civs_(m["exons"]), cz(m["rows"]))

def output_cases(run, outdir, gtf_in, report_all):
    """returns (preamble ctx terms, model cases, table case, stats)"""
    import pipeline as P
    replay = dict(run=run["name"], input=run["input"], args=run["args"], genedb=bool(gtf_in))
    mp = P.find(outdir, "OUT", "transcript_models.gtf"); tp = P.find(outdir, "OUT", "transcript_model_reads.tsv"); bp = P.find(outdir, "OUT", "corrected_reads.bed")
    if not (mp and tp and bp): return None, replay
    models, _genes = P.read_gtf(mp)
    ref = P.read_gtf(gtf_in)[0] if gtf_in else {}
    bed = P.read_bed(bp)
    bed_introns = collections.defaultdict(set)
    for r in bed:
        for a, b in zip(r["exons"], r["exons"][1:]): bed_introns[r["chr"]].add((a[1] + 1, b[0] - 1))
    ref_introns = collections.defaultdict(set); ref_chains = collections.defaultdict(set)
    for t in ref.values():
        for i in t["introns"]: ref_introns[t["chr"]].add(i)
        if t["introns"]: ref_chains[t["chr"]].add(tuple(t["introns"]))
    rows = collections.Counter(); table_tids = []
    for l in P.opn(tp):
        if l.startswith("#"): continue
        v = l.rstrip("\n").split("\t")
        rows[v[1]] += 1
    novel = collections.OrderedDict()
    for tid, t in models.items():
        if tid in ref: continue
        novel[tid] = dict(tid=tid, chr=t["chr"], strand=t["strand"], strand_code=STRAND_CODE.get(t["strand"], 9), suffix=0 if tid.endswith(".nic") else 1 if tid.endswith(".nnic") else 2,
                          gene=t["gene"], gene_novel=(t["gene"] or "").startswith("novel_gene_"), exons=t["exons"], rows=rows[tid])
    chroms = sorted(set(m["chr"] for m in novel.values()))
    return dict(replay=replay, novel=novel, chroms=chroms, bed_introns=bed_introns, ref_introns=ref_introns, ref_chains=ref_chains, annotation_free=not gtf_in,
                table=sorted(rows), gtf_tids=list(models), report_all=report_all, n_known=len(models) - len(novel)), replay


PRE_OUT_TAIL = """Definition dflt := mkO [] [] [] false.
(* (context index, model, the other novel models of the chromosome each with the replayed assigner verdicts (m matches it, it matches m)) *)
Definition T := (nat * omodel * list (omodel * option (bool * bool)))%type.
Definition ctx_of (c : T) := nth (fst (fst c)) ctxs dflt.
Definition others (c : T) := map fst (snd c).
Definition check (c : T) : bool := true.
"""
PROP_FULL = "Definition prop (c : T) : bool := novel_ok (ctx_of c) (snd (fst c)) (others c).\n"
# classification of violations (decided in Coq): which clause fails, and whether the structural description of the known deviations applies
PROP_BUT_DISTINCT = "Definition prop (c : T) : bool := let m := snd (fst c) in let k := ctx_of c in cl_support k m && cl_reads m && cl_strand m && cl_suffix k m && cl_not_reference k m && cl_annotation_free k m.\n"
PROP_BUT_STRAND = "Definition prop (c : T) : bool := let m := snd (fst c) in let k := ctx_of c in cl_support k m && cl_reads m && cl_suffix k m && cl_not_reference k m && cl_distinct m (others c) && cl_annotation_free k m.\n"
PROP_ALT_END = "Definition prop (c : T) : bool := duplicates_left_by_design (snd (fst c)) (snd c).\n"
PROP_DOT = "Definition prop (c : T) : bool := om_strand (snd (fst c)) =? 2.\n"


# ------------------------------------------------------------------ generated data
DT = {"reliable": "nanopore", "default_pacbio": "pacbio_ccs", "sensitive_pacbio": "pacbio_ccs", "fl_pacbio": "pacbio_ccs", "default_ont": "nanopore",
      "sensitive_ont": "nanopore", "all": "nanopore", "assembly": "assembly"}

def make_world(seed):
    """annotated genes with known / truncated / jittered reads, plus material for the intron graph: unannotated exon-skipping chains,
    alternative-end groups, bulges (one junction shifted by 7-15 bp in a single read), tips (single reads ending in an unseen intron),
    an unannotated locus, reads of both strands"""
    from gen_data import World
    w = World(seed, n_chr=3, chr_len=(30000, 60000), genes_per_chr=(2, 4))
    rnd = w.rnd
    w.reads_from_annotation(per_isoform=5); w.novel_reads(per_gene=6)
    n = 0
    for g in w.genes:
        pool = g["pool"]; L = len(w.chroms[g["chr"]])
        if len(pool) >= 5:
            chain = [pool[i] for i in range(len(pool)) if i != 2]
            for k in range(5): n += 1; w.add_read("skip_%s_%d" % (g["id"], n), g["chr"], chain, g["strand"])
        if len(pool) >= 3:
            full = [pool[i] for i in g["isoforms"][g["id"] + ".T0"]]
            # bulge: an internal junction shifted beyond the correction tolerance, low coverage next to the well covered one
            for k in range(rnd.randint(1, 2)):
                j = rnd.randint(1, len(full) - 1); sh = rnd.choice([-1, 1]) * rnd.randint(7, 15)
                ex = list(full)
                if ex[j][0] + sh < ex[j][1] - 5 and ex[j][0] + sh > ex[j - 1][1] + 30:
                    ex[j] = (ex[j][0] + sh, ex[j][1]); n += 1
                    w.add_read("bulge_%s_%d" % (g["id"], n), g["chr"], ex, g["strand"])
            # tip: a read that leaves the gene through an unseen intron into an unannotated exon
            if L > pool[-1][1] + 1500 and rnd.random() < .7:
                far = (pool[-1][1] + rnd.randint(300, 900), 0); far = (far[0], far[0] + rnd.randint(80, 200))
                ex = full[:-1] + [(full[-1][0], full[-1][0] + 40), far]; n += 1
                w.add_read("tip_%s_%d" % (g["id"], n), g["chr"], ex, g["strand"], polya=rnd.random() < .5)
            # alternative 3' ends on the skipping chain: same introns, end moved by 250-500 bases (polyA on the transcript strand)
            if len(pool) >= 4 and rnd.random() < .8:
                chain = [pool[0], pool[-2], pool[-1]]
                if g["strand"] == "+" and L > pool[-1][1] + 700:
                    alt = chain[:-1] + [(chain[-1][0], chain[-1][1] + rnd.randint(250, 500))]
                elif g["strand"] == "-" and pool[0][0] > 700:
                    alt = [(chain[0][0] - rnd.randint(250, 500), chain[0][1])] + chain[1:]
                else: alt = None
                if alt:
                    for k in range(6): n += 1; w.add_read("altend_%s_%d" % (g["id"], n), g["chr"], alt, g["strand"])
    # an unannotated locus on the last chromosome (beyond its last gene), both strands
    c = sorted(w.chroms)[-1]; s = list(w.chroms[c]); w.chroms[c] = s
    last = max([g["end"] for g in w.genes if g["chr"] == c] + [1000]); p = last + 2500
    if p + 4000 < len(s):
        exons = [(p, p + 200), (p + 500, p + 650), (p + 1000, p + 1200), (p + 1600, p + 1900)]
        st = rnd.choice("+-"); w.plant(exons, c, st); w.chroms[c] = "".join(s)
        for k in range(7): n += 1; w.add_read("unann_%d" % n, c, exons, st)
        for k in range(4): n += 1; w.add_read("unann_short_%d" % n, c, exons[1:] if st == "+" else exons[:-1], st)
    else: w.chroms[c] = "".join(s)
    return w

def alt_end_world():
    """finding #13a: one unannotated two-exon locus, two groups of 6 reads with the same intron and polyA sites 400 bp apart;
    and a three-exon locus with two groups whose polyA sites are 400 bp apart"""
    from gen_data import World
    w = World(11, n_chr=1, chr_len=(30000, 30000), genes_per_chr=(0, 0))
    c = "chrA"; s = list(w.chroms[c]); w.chroms[c] = s
    a = [(5001, 5300), (6001, 6400)]; b = [(5001, 5300), (6001, 6800)]
    t1 = [(15001, 15300), (16001, 16200), (17001, 17300)]; t2 = [(15001, 15300), (16001, 16200), (17001, 17700)]
    w.plant(a, c, "+"); w.plant(t1, c, "+"); w.chroms[c] = "".join(s)
    for i in range(6): w.add_read("endA_%d" % i, c, a, "+")
    for i in range(6): w.add_read("endB_%d" % i, c, b, "+")
    for i in range(6): w.add_read("triA_%d" % i, c, t1, "+")
    for i in range(6): w.add_read("triB_%d" % i, c, t2, "+")
    return w

def collapsed_ends_world():
    """the counterpart of alt_end_world for longer chains: inside an annotated gene a novel four-exon chain is expressed with two well supported polyA
    sites 600 bp apart (10 polyA-tailed reads each); detect_similar_isoforms compares the two candidates (same exon count) and keeps ONE"""
    from gen_data import World
    w = World(13, n_chr=1, chr_len=(30000, 30000), genes_per_chr=(0, 0))
    c = "chrA"; s = list(w.chroms[c]); w.chroms[c] = s
    pool = [(5001, 5200), (5501, 5700), (5901, 6000), (6301, 6500)]
    g = dict(id="chrA_G1", chr=c, strand="+", pool=pool, isoforms={"chrA_G1.T0": [0, 1, 3]}, start=5001, end=6500)
    short = list(pool); long_ = pool[:3] + [(6301, 7100)]
    w.plant([pool[0], pool[1], pool[3]], c, "+"); w.plant(short, c, "+"); w.chroms[c] = "".join(s); w.genes.append(g)
    for i in range(10): w.add_read("pA6500_%d" % i, c, short, "+")
    for i in range(10): w.add_read("pA7100_%d" % i, c, long_, "+")
    for i in range(5): w.add_read("t0_%d" % i, c, [pool[0], pool[1], pool[3]], "+")
    return w

def mapq_world():
    """filter_transcripts' MAPQ test of novel models with <= 2 exons AFTER re-assignment: two unannotated two-exon loci, each with 6 polyA-tailed full-length
    reads of MAPQ 60 and mono-exonic polyA reads inside the last exon that are re-assigned to the model: 8 of MAPQ 5 (mean 28.6 < 30: the model must go, WITH its
    rows in the read table) resp. 2 of MAPQ 5 (mean 46: the model stays and lists them); plus a three-exon control locus"""
    from gen_data import World
    w = World(14, n_chr=1, chr_len=(40000, 40000), genes_per_chr=(0, 0))
    c = "chrA"; s = list(w.chroms[c]); w.chroms[c] = s
    a = [(5001, 5300), (6001, 6400)]; b = [(10001, 10300), (11001, 11400)]; t = [(15001, 15300), (16001, 16200), (17001, 17300)]
    w.plant(a, c, "+"); w.plant(b, c, "+"); w.plant(t, c, "+"); w.chroms[c] = "".join(s)
    for i in range(6): w.add_read("flA_%d" % i, c, a, "+", mapq=60)
    for i in range(8): w.add_read("lowA_%d" % i, c, [(6051, 6400)], "+", mapq=5)
    for i in range(6): w.add_read("flB_%d" % i, c, b, "+", mapq=60)
    for i in range(2): w.add_read("lowB_%d" % i, c, [(11051, 11400)], "+", mapq=5)
    for i in range(12): w.add_read("ctl_%d" % i, c, t, "+", mapq=60)
    return w

def substituted_annotated_intron_world():
    """nic/nnic with a collapsed ANNOTATED intron: gene chrA_G1 (+) with isoforms T0 = E1 E2 E3 and T1 = E2 E3 E4 E5; 10 reads use the unannotated donor 12 bp
    inside E1's intron (beyond delta 6, within the clustering distance) and run E1' E2 E3 E4 E5, 2 reads use the annotated intron: the annotated intron is collapsed
    into the unannotated one; the reported novel chain contains an unannotated intron and must be .nnic"""
    from gen_data import World
    w = World(15, n_chr=1, chr_len=(40000, 40000), genes_per_chr=(0, 0))
    c = "chrA"; s = list(w.chroms[c]); w.chroms[c] = s
    E1, E2, E3, E4, E5 = (5000, 5200), (6000, 6150), (7000, 7180), (8000, 8120), (9000, 9300)
    pool = [E1, E2, E3, E4, E5]
    g = dict(id="chrA_G1", chr=c, strand="+", pool=pool, isoforms={"chrA_G1.T0": [0, 1, 2], "chrA_G1.T1": [1, 2, 3, 4]}, start=5000, end=9300)
    w.plant([E1, E2, E3], c, "+"); w.plant([E2, E3, E4, E5], c, "+"); w.plant([(5000, 5212), E2], c, "+"); w.chroms[c] = "".join(s); w.genes.append(g)
    for i in range(10): w.add_read("sub_%d" % i, c, [(5000 + i, 5212), E2, E3, E4, (9000, 9300 - i % 3)], "+")
    for i in range(2): w.add_read("ann_%d" % i, c, [(5000 + i, 5200), E2, E3, E4, E5], "+")
    return w

def dot_strand_world():
    """finding #13b: unannotated three-exon reads over non-canonical splice sites, without polyA tails"""
    from gen_data import World
    w = World(12, n_chr=1, chr_len=(30000, 30000), genes_per_chr=(0, 0))
    c = "chrA"; s = list(w.chroms[c]); w.chroms[c] = s
    ex = [(5001, 5300), (6001, 6200), (7001, 7300)]
    for a, b in zip(ex, ex[1:]):          # make sure no site is canonical on either strand
        s[a[1]:a[1] + 2] = "AA"; s[b[0] - 3:b[0] - 1] = "CC"
    # a canonical control locus
    ex2 = [(15001, 15300), (16001, 16200), (17001, 17300)]
    w.plant(ex2, c, "-"); w.chroms[c] = "".join(s)
    for i in range(8): w.add_read("nc_%d" % i, c, ex, "+", polya=False)
    for i in range(8): w.add_read("ctl_%d" % i, c, ex2, "-", polya=False)
    return w


def traced_run(job):
    import pipeline as P
    d = job["dir"]; out = os.path.join(d, "out_" + job["name"]); trace = os.path.join(d, "trace_" + job["name"])
    args = ["--bam"] + job["bams"] + ["--reference", job["fasta"], "-p", "OUT"] + (["--genedb", job["gtf"], "--complete_genedb"] if job["gtf"] else []) + job["args"]
    rc, log = P.run_isoquant(out, args, wrapper=WRAPPER, env_extra=dict(C04_TRACE=trace, ABLAB_ISOQUANT_VERIF="1", VERIF_REPO=REPO), timeout=900)
    recs = []
    for f in sorted(glob.glob(trace + ".*")):
        for l in open(f):
            try: recs.append(json.loads(l))
            except ValueError: recs.append(dict(kind="garbled"))
    return dict(job, rc=rc, log=log, recs=recs, out=out)


def run_pipeline(ctx, quick, only=None):
    import pipeline as P
    from concurrent.futures import ThreadPoolExecutor
    rnd = section_rnd(ctx, "pipeline")
    d = P.scratch("iqv_c04_")
    try:
        jobs = []
        def job(name, inp, gtf, args):
            if only and name not in only: return
            jobs.append(dict(name=name, dir=d, bams=inp["bams"], fasta=inp["fasta"], gtf=inp["gtf"] if gtf else None, args=args, input=inp["label"]))
        b = P.bundled(os.path.join(d, "bundled"))
        binp = dict(bams=[b["bam"]], fasta=b["fasta"], gtf=b["gtf"], label="bundled chr9.4M ONT")
        for st, dt in DT.items(): job("bundled_%s" % st, binp, True, ["--data_type", dt, "--model_construction_strategy", st, "-t", "1"])
        job("bundled_nogenedb", binp, False, ["--data_type", "nanopore", "-t", "1"])
        job("bundled_nogenedb_all", binp, False, ["--data_type", "nanopore", "--model_construction_strategy", "all", "--report_novel_unspliced", "true", "-t", "1"])
        job("bundled_report_all", binp, True, ["--data_type", "nanopore", "--report_canonical", "all", "--report_novel_unspliced", "true", "-t", "1"])
        job("bundled_report_all_nopolya", binp, True, ["--data_type", "nanopore", "--report_canonical", "all", "--polya_requirement", "never", "-t", "1"])
        seeds = [ctx.seed * 100 + i for i in range(2 if quick else 10)]
        for sd in seeds:
            w = make_world(sd); wd = os.path.join(d, "world%d" % sd); paths = w.write(wd)
            inp = dict(bams=paths, fasta=os.path.join(wd, "genome.fa"), gtf=os.path.join(wd, "annotation.gtf"), label="c04.make_world(%d)" % sd)
            presets = list(DT) if not quick else ["default_ont"] + rnd.sample([k for k in DT if k != "default_ont"], 2)
            for st in presets: job("world%d_%s" % (sd, st), inp, True, ["--data_type", DT[st], "--model_construction_strategy", st, "-t", rnd.choice(["1", "3"])])
            job("world%d_nogenedb" % sd, inp, False, ["--data_type", "nanopore", "--model_construction_strategy", rnd.choice(["default_ont", "sensitive_ont", "all"]), "-t", "2"])
            job("world%d_report_all" % sd, inp, True, ["--data_type", "nanopore", "--report_canonical", "all", "--polya_requirement", "never", "-t", "1"])
            job("world%d_nogenedb_report_all" % sd, inp, False, ["--data_type", "nanopore", "--report_canonical", "all", "--polya_requirement", "never", "-t", "1"])
        # corpus cases reproducing the two deviations that are by design
        w = alt_end_world(); wd = os.path.join(d, "altend"); paths = w.write(wd)
        job("corpus_alt_ends", dict(bams=paths, fasta=os.path.join(wd, "genome.fa"), gtf=None, label="c04.alt_end_world(): two read groups with one intron chain and polyA sites 400 bp apart (two-exon and three-exon locus)"),
            False, ["--data_type", "nanopore", "-t", "1"])
        w = collapsed_ends_world(); wd = os.path.join(d, "collapsed"); paths = w.write(wd)
        job("corpus_collapsed_ends", dict(bams=paths, fasta=os.path.join(wd, "genome.fa"), gtf=os.path.join(wd, "annotation.gtf"),
                                          label="c04.collapsed_ends_world(): novel four-exon chain in gene chrA_G1 with two polyA sites 600 bp apart, 10 reads each: the two candidates must be collapsed into one model"),
            True, ["--data_type", "nanopore", "-t", "1"])
        w = dot_strand_world(); wd = os.path.join(d, "dotstrand"); paths = w.write(wd)
        dinp = dict(bams=paths, fasta=os.path.join(wd, "genome.fa"), gtf=None, label="c04.dot_strand_world(): unannotated three-exon reads over non-canonical splice sites without polyA tails")
        job("corpus_dot_strand", dinp, False, ["--data_type", "nanopore", "--report_canonical", "all", "--polya_requirement", "never", "-t", "1"])
        job("corpus_dot_strand_default", dinp, False, ["--data_type", "nanopore", "--polya_requirement", "never", "-t", "1"])
        # every preset WITHOUT --report_canonical: the level is the option's default (only_stranded), never `all`: a definite strand is required
        for st, dt in DT.items():
            job("corpus_dot_strand_preset_%s" % st, dinp, False, ["--data_type", dt, "--model_construction_strategy", st, "--polya_requirement", "never", "-t", "1"])
        job("corpus_dot_strand_auto_all", dinp, False, ["--data_type", "nanopore", "--model_construction_strategy", "all", "--report_canonical", "auto", "--polya_requirement", "never", "-t", "1"])
        w = mapq_world(); wd = os.path.join(d, "mapq"); paths = w.write(wd)
        minp = dict(bams=paths, fasta=os.path.join(wd, "genome.fa"), gtf=None, label="c04.mapq_world(): two-exon novel loci whose mean MAPQ after re-assignment of mono-exonic MAPQ-5 reads is 28.6 resp. 46")
        job("corpus_mapq", minp, False, ["--data_type", "nanopore", "-t", "1"])
        job("corpus_mapq_unspliced", minp, False, ["--data_type", "nanopore", "--report_novel_unspliced", "true", "-t", "2"])
        w = substituted_annotated_intron_world(); wd = os.path.join(d, "subann"); paths = w.write(wd)
        job("corpus_substituted_annotated_intron", dict(bams=paths, fasta=os.path.join(wd, "genome.fa"), gtf=os.path.join(wd, "annotation.gtf"),
                                                        label="c04.substituted_annotated_intron_world(): weakly covered annotated intron 5201-5999 collapsed into the well covered unannotated 5213-5999"), True,
            ["--data_type", "nanopore", "-t", "1"])
        # the seed scenario of the MAPQ filter on real data: two reads of a novel two-exon isoform of the bundled set get MAPQ 6
        import pysam
        lb = os.path.join(d, "bundled_lowmapq.bam")
        with pysam.AlignmentFile(b["bam"]) as src, pysam.AlignmentFile(lb, "wb", template=src) as out:
            for r_ in src:
                if r_.query_name.startswith("ONT.910204.") or r_.query_name.startswith("ONT.1444184."): r_.mapping_quality = 6
                out.write(r_)
        pysam.index(lb)
        job("bundled_lowmapq", dict(bams=[lb], fasta=b["fasta"], gtf=b["gtf"], label="bundled chr9.4M ONT with reads ONT.910204.* and ONT.1444184.* set to MAPQ 6"), True, ["--data_type", "nanopore", "-t", "2"])
        with ThreadPoolExecutor(min(NPROC, 12)) as ex: results = list(ex.map(traced_run, jobs))
        ctx.cov["pipeline_runs"] += len(results)
        analyse(ctx, results, quick)
    finally:
        shutil.rmtree(d, ignore_errors=True)


def analyse(ctx, results, quick):
    import pipeline as P
    rcases = []; dcases = []; scases = []; gcases = []; tcases = []
    stats = collections.Counter()
    for r in results:
        replay = dict(run=r["name"], input=r["input"], args=r["args"], genedb=bool(r["gtf"]))
        if r["rc"] != 0:
            ctx.violation(None, "isoquant.py exits with %d" % r["rc"], dict(replay, log=r["log"][-1500:])); continue
        a = r["args"]
        # was the level `all` ASKED for?  --report_canonical all, or --report_canonical auto together with the preset `all`; the option's default is
        # only_stranded (isoquant.py parse_args), so a preset alone never selects it
        rc_opt = a[a.index("--report_canonical") + 1] if "--report_canonical" in a else None
        preset = a[a.index("--model_construction_strategy") + 1] if "--model_construction_strategy" in a else None
        report_all = rc_opt == "all" or (rc_opt == "auto" and preset == "all")
        for rec in r["recs"]:
            if rec.get("kind") != "region" or "raised" in rec or "graph" not in rec:
                ctx.violation(None, "GraphBasedModelConstructor.process raised %s in a pipeline run (or the trace is garbled)" % rec.get("raised"), dict(replay, region=rec.get("region"))); continue
            rcases.append(region_case(rec, replay))
            for t, o in decision_cases(rec, replay, per_region=True):
                if t is None: ctx.broken("trace-wrapper", "decisions could not be aligned with the paths: %s" % o.get("error"))
                else: dcases.append((t, o))
            scases.append(store_case(rec, replay, (rec.get("fl") or {}).get("params", {}).get("min_novel_count", 1)))
            stats["regions"] += 1
            if rec.get("late_ops"): stats["regions_with_mutations_after_graph_construction"] += 1
            if (rec.get("fl") or {}).get("params", {}).get("report") == "all": stats["regions_report_all"] += 1
        verdicts = {}
        for rec in r["recs"]:
            for e in rec.get("dup_oracle") or []: verdicts[(e[0], e[1])] = e[2]
        o, _ = output_cases(r, r["out"], r["gtf"], report_all)
        if o is None:
            ctx.violation(None, "transcript_models.gtf / transcript_model_reads.tsv / corrected_reads.bed missing", replay); continue
        for c in o["chroms"]:
            cterm = "(mkO %s %s %s %s)" % (civs_(sorted(o["bed_introns"][c])), civs_(sorted(o["ref_introns"][c])), cchains(sorted(o["ref_chains"][c])), cbool(o["annotation_free"]))
            ms = [m for m in o["novel"].values() if m["chr"] == c]
            gcases.append(("(%s, %s)" % (cterm, clist(ms, comodel)), dict(replay, chr=c, n_models=len(ms), n_spliced=sum(1 for m in ms if len(m["exons"]) > 1), report_all=o["report_all"], _ctx=cterm, _models=ms,
                                                                         _verdicts=verdicts)))
        tc = Codes()
        tcases.append(("(%s, %s)" % (czs([-1 if t == "*" else tc(t) for t in o["table"]]), czs([tc(t) for t in o["gtf_tids"]])),
                       dict(replay, not_in_gtf=[t for t in o["table"] if t != "*" and t not in set(o["gtf_tids"])][:5], n_table=len(o["table"]), n_gtf=len(o["gtf_tids"]))))
        if r["name"] == "corpus_substituted_annotated_intron":
            hit = [m for m in o["novel"].values() if (5213, 5999) in [(x[1] + 1, y[0] - 1) for x, y in zip(m["exons"], m["exons"][1:])]]
            collapsed = any(o_[0] == "Collapse" and tuple(o_[1]) == (5201, 5999) and tuple(o_[2]) == (5213, 5999) for rec in r["recs"] for o_ in (rec.get("graph") or {}).get("ops", []))
            if not hit or not collapsed: ctx.broken("corpus:substituted_annotated_intron", "scenario not exercised: novel model through 5213-5999 reported=%s, annotated intron collapsed into it=%s" % (bool(hit), collapsed))
        if r["name"] == "corpus_mapq":
            dels = [e[1] for rec in r["recs"] for e in rec.get("store", []) if e[0] == "Del"]
            kept = [m for m in o["novel"].values() if m["exons"] and m["exons"][0][0] == 10001]
            if not dels or not kept or kept[0]["rows"] != 8: ctx.broken("corpus:mapq", "scenario not exercised: deletions in filter_transcripts=%s, the mean-46 model with its 8 rows=%s" % (dels, [(m["tid"], m["rows"]) for m in kept]))
        if r["name"] == "corpus_collapsed_ends":
            chains = [tuple((a[1] + 1, b[0] - 1) for a, b in zip(m["exons"], m["exons"][1:])) for m in o["novel"].values()]
            if (5701, 5900) not in [i for ch in chains for i in ch]: ctx.broken("corpus:collapsed_ends", "the novel four-exon chain of collapsed_ends_world() is not reported at all: the scenario is not exercised")
            stats["collapsed_ends_world_novel_models"] += len(o["novel"])
        stats["novel_models"] += len(o["novel"]); stats["known_models"] += o["n_known"]
        stats["spliced_novel_models"] += sum(1 for m in o["novel"].values() if len(m["exons"]) > 1)
        if o["annotation_free"]: stats["annotation_free_runs"] += 1
    # ---- trace validation
    mism, viol = ctx.corr("pipeline:graph_traces", PRE_REGION, rcases, shard=10, ctype="T", nontrivial=lambda o: o["nontrivial"])
    ctx.corr_report("pipeline:graph_traces", mism, viol, what="logged IntronGraph state violates vertices-are-read-introns / substitutes-are-vertices / paths-through-vertices")
    mism, viol = ctx.corr("pipeline:fl_decisions", PRE_RDECISION, dcases, shard=10, ctype="rdecisions", nontrivial=lambda o: o["n_novel"] > 0)
    if mism or viol:
        # drill down to the single decisions of the regions concerned
        items = [it for o in {id(x): x for x in mism + viol}.values() for it in o["_items"]]
        mism, viol = ctx.corr("pipeline:fl_decisions(single)", PRE_DECISION, items, shard=100, ctype="dcase", nontrivial=lambda o: o["novel"])
    for _, o in dcases: o.pop("_items", None)
    ctx.cov["decisions_validated"] = sum(o["n_paths"] for _, o in dcases)
    ctx.corr_report("pipeline:fl_decisions", mism, viol, what="a novel model emitted by construct_fl_isoforms is mislabelled, equals a reference chain, has no definite strand or leaves the vertex set")
    mism, viol = ctx.corr("pipeline:model_store", PRE_STORE, scases, shard=12, ctype="T", nontrivial=lambda o: o["nontrivial"])
    ctx.corr_report("pipeline:model_store", mism, viol, what="read table names a model that is not stored, or a stored novel model has no read")
    # ---- novel_ok on the output files: per (run, chromosome); the groups with a violation are re-examined model by model
    _, gviol = ctx.corr("pipeline:novel_ok", PRE_GROUP, gcases, shard=4, ctype="T", nontrivial=lambda o: o["n_spliced"] > 0)
    octxs = []; mcases = []
    for g in gviol:
        k = len(octxs); octxs.append(g["_ctx"]); ms = g["_models"]; vd = g["_verdicts"]
        def cverdict(m, x):
            a = vd.get((m["tid"], x["tid"])); b = vd.get((x["tid"], m["tid"]))
            return "None" if a is None or b is None else "(Some (%s, %s))" % (cbool(a), cbool(b))
        for m in ms:
            others = [x for x in ms if x is not m]
            term = "(%s, %s, %s)" % (cnat(k), comodel(m), clist(others, lambda x: "(%s, %s)" % (comodel(x), cverdict(m, x))))
            dups = [x["tid"] for x in others if x["strand"] == m["strand"] and len(m["exons"]) > 1 and
                    [(a[1], b[0]) for a, b in zip(x["exons"], x["exons"][1:])] == [(a[1], b[0]) for a, b in zip(m["exons"], m["exons"][1:])]]
            mcases.append((term, dict({k_: v for k_, v in g.items() if not k_.startswith("_") and k_ not in ("n_models", "n_spliced")}, transcript=m["tid"], strand=m["strand"], gene=m["gene"], exons=m["exons"],
                                      rows=m["rows"], same_chain_as=dups, n_exons=len(m["exons"]),
                                      assigner_verdicts={x: dict(this_matches_it=vd.get((m["tid"], x)), it_matches_this=vd.get((x, m["tid"]))) for x in dups})))
    for _, o in gcases: o.pop("_ctx", None); o.pop("_models", None); o.pop("_verdicts", None)
    keys = {}; viol = []
    if mcases:
        head = PRE + "Definition ctxs : list octx := [\n" + ";\n".join(octxs) + "].\n" + PRE_OUT_TAIL
        _, viol = ctx.corr("pipeline:novel_ok(single)", head + PROP_FULL, mcases, shard=100, ctype="T")
        if gviol and not viol: ctx.broken("correspondence:pipeline:novel_ok", "a chromosome fails novel_ok_all but none of its models fails novel_ok")
        vterm = {id(o): t for t, o in mcases}
        vc = [(vterm[id(o)], o) for o in viol]
        def fails(prop): return set(id(o) for o in ctx.corr("pipeline:novel_ok(classification)", head + prop, vc, shard=100, ctype="T")[1]) if vc else set()
        but_distinct = fails(PROP_BUT_DISTINCT); but_strand = fails(PROP_BUT_STRAND); not_alt = fails(PROP_ALT_END); not_dot = fails(PROP_DOT)
        for o in viol:
            k = None
            # only the pairwise-distinct clause fails, and every duplicate is one the algorithm is specified to leave: <= 2 exons (never compared), or a longer
            # pair for which the assigner of the tree under test, replayed on the pair in both directions, gives no matching assignment
            if id(o) not in but_distinct and id(o) not in not_alt: k = KEY_DUP
            # only the strand clause fails, the strand is '.', and the run reports all strands
            elif id(o) not in but_strand and id(o) not in not_dot and o["report_all"]: k = KEY_DOT
            keys[id(o)] = k
    ctx.corr_report("pipeline:novel_ok", [], viol, keyfn=lambda o: keys[id(o)], what="novel transcript violates novel_ok (intron support, read table, strand, nic/nnic, reference chain, pairwise distinct chains, annotation-free gene)")
    pre_t = PRE + "Definition T := (list Z * list Z)%type.\nDefinition check (c : T) : bool := true.\nDefinition prop (c : T) : bool := table_ok (fst c) (snd c).\n"
    mism, viol = ctx.corr("pipeline:read_table", pre_t, tcases, shard=8, ctype="T", nontrivial=lambda o: o["n_table"] > 0)
    ctx.corr_report("pipeline:read_table", mism, viol, what="transcript_model_reads.tsv names a transcript that is not in transcript_models.gtf")
    ctx.notes.append("pipeline: %d runs; %s" % (len(results), ", ".join("%s=%d" % kv for kv in sorted(stats.items()))))


# ================================================================== unit level
# ------------------------------------------------------------------ StrandDetector
def run_strand_unit(ctx, quick):
    from src.gene_info import StrandDetector
    cases = []
    for n in range(0, 5):
        for vec in itertools.product("+-.", repeat=n):
            introns = [(100 * i + 11, 100 * i + 60) for i in range(n)]
            for a in (False, True):
                for t in (False, True):
                    sd = StrandDetector(None)
                    for i, s_ in zip(introns, vec): sd.set_strand(i, s_)
                    gs = sd.get_strand(introns, a, t); cs = sd.get_clean_strand(introns); fr = sd.count_canonical_sites(introns)
                    term = "(%s, %s, %s, (%s, %s), (%s, %s))" % (clist(list(zip(introns, vec)), lambda e: "(%s, %s)" % (civ(e[0]), cstrand(e[1]))), cbool(a), cbool(t), cz(fr[0]), cz(fr[1]), cstrand(gs), cstrand(cs))
                    cases.append((term, dict(strands=vec, has_polya=a, has_polyt=t, impl=(fr, gs, cs))))
    pre = PRE + """Definition T := (list (iv * strand) * bool * bool * (Z * Z) * (strand * strand))%type.
Definition sd_of (l : list (iv * strand)) (i : iv) : strand := match find (fun e => iv_eqb (fst e) i) l with Some e => snd e | None => Dot end.
Definition check (c : T) : bool := let '(l, a, t, fr, (gs, cs)) := c in let ins := map fst l in
  let '(f, r) := count_sites (sd_of l) ins in (f =? fst fr) && (r =? snd fr) && strand_eqb (get_strand (sd_of l) ins a t) gs && strand_eqb (get_clean_strand (sd_of l) ins) cs.
(* a definite clean strand is the strand; a definite strand has a strict majority of its canonical sites or a polyA/polyT tie-break *)
Definition prop (c : T) : bool := let '(l, a, t, fr, (gs, cs)) := c in
  (is_dot cs || strand_eqb gs cs) &&
  match gs with Plus => (snd fr <? fst fr) || ((fst fr =? snd fr) && a && negb t) | Minus => (fst fr <? snd fr) || ((fst fr =? snd fr) && t && negb a) | Dot => fst fr =? snd fr end.
"""
    ctx.rule("StrandDetector.count_canonical_sites / get_strand / get_clean_strand (REAL) on every assignment of +,-,. to <= 4 introns x has_polya x has_polyt (exhaustive: 484 cases)")
    m, v = ctx.corr("strand_functions", pre, cases, shard=250, ctype="T", nontrivial=lambda o: len(o["strands"]) > 0)
    ctx.corr_report("strand_functions", m, v)


# ------------------------------------------------------------------ construct_fl_isoforms on stubs
def run_decide_unit(ctx, quick):
    from props._idcanon import make_constructor, run_fl
    from src.id_policy import ExcludingIdDistributor
    from src.graph_based_model_construction import StrandnessReportingLevel as L
    from src.intron_graph import VERTEX_polya, VERTEX_polyt, VERTEX_read_end, VERTEX_read_start
    rnd = section_rnd(ctx, "decide")
    i1, i2, i3 = (111, 200), (311, 400), (511, 600)
    GENES = {"none": ([], {}), "one": ([("T1", "+", "G1", [i1])], {"G1": "+"}), "two": ([("T1", "-", "G1", [i1]), ("T2", "+", "G2", [i1, i2])], {"G1": "-", "G2": "+"}),
             "dotgene": ([("T1", ".", "G1", [i1, i2])], {"G1": "."}), "tie": ([("T1", "+", "G1", [i1]), ("T2", "+", "G2", [i2])], {"G1": "+", "G2": "+"})}
    cases = []
    def one_world(strands, level, mono, mnc, gname, known, inknown, empty, chains, reps=False):
        isoforms, gene_strands = GENES[gname]
        params = types.SimpleNamespace(min_novel_count=mnc, min_known_count=1, require_monointronic_polya=mono, report_canonical_strategy=level, use_technical_replicas=reps)
        c = make_constructor("chrA", "ACGT" * 200, isoforms, gene_strands, empty, known, params, ExcludingIdDistributor(None, "chrA"))
        for i, s_ in strands.items(): c.strand_detector.strand_dict[i] = s_
        paths = []; k = 0
        for ip in chains:
            for pt in (False, True):
                for pa in (False, True):
                    for cnt in (mnc - 1, mnc):
                        k += 1
                        p = ((VERTEX_polyt if pt else VERTEX_read_start, ip[0][0] - 10 - k),) + tuple(ip) + ((VERTEX_polya if pa else VERTEX_read_end, ip[-1][1] + 10 + k),)
                        paths.append((p, cnt))
        matching = set(p for p, _ in paths if rnd.random() < .12) if not empty else set()      # without annotation the assigner has no isoform to name
        in_known = set(tuple(x) for x in inknown)
        res = run_fl(c, paths, matching, in_known)
        counts = dict(paths)
        genec = Codes(list(gene_strands))
        ctx_term = "(mkC %s %s %s %s)" % (cbool(empty), clist(sorted(gene_strands.items()), lambda e: "(%s, %s)" % (cz(genec(e[0])), cstrand(e[1]))), civs_(sorted(known)), cchains(sorted(in_known)))
        pterm = "(mkP %s 1 %s %s %s)" % (cz(mnc), cbool(mono), {L.only_canonical: "OnlyCanonical", L.only_stranded: "OnlyStranded", L.all: "ReportAll"}[level], cbool(reps))
        refs = [[(1, 2)]] + [list(x) for x in sorted(in_known)]
        pool = sorted(strands)
        for p, o in res:
            ip = list(p[1:-1]); fr = c.strand_detector.count_canonical_sites(ip)
            ig = clist([(i, sorted(c.intron_genes[i])) for i in sorted(set(ip)) if i in c.intron_genes], lambda e: "(%s, %s)" % (civ(e[0]), czs([genec(g) for g in e[1]])))
            path = "(mkPath %s %s %s %s %s %s %s %s [] 1)" % (civ((p[0][1], p[-1][1])), cbool(p[0][0] == VERTEX_polyt), cbool(p[-1][0] == VERTEX_polya), civs_(ip), cz(counts[p]),
                                                             "(Some 0)" if p in matching else "None", cz(fr[0]), cz(fr[1]))
            if o is None: co = "ONone"
            elif o[0] == "known": co = "OKnown"
            else:
                _, strand, tid, gid, tname = o
                gene = "(RefGene %s)" % cz(genec(gid)) if gid in gene_strands else "NovelGene"
                if gene == "NovelGene" and not gid.startswith("novel_gene_"): gene = "(RefGene (-1))"
                co = "(ONovel %s %s %s %s)" % (cstrand(strand), gene, cbool(tname == "novel_in_catalog"), cz(0 if tid.endswith(".nic") else 1 if tid.endswith(".nnic") else 2))
            term = "(mkD %s %s %s %s %s %s %s)" % (pterm, ctx_term, ig, path, civs_(pool), cchains(refs), co)
            cases.append((term, dict(strands={str(k_): v_ for k_, v_ in strands.items()}, level=level.name, require_monointronic_polya=mono, min_novel_count=mnc, genes=gname, known_introns=sorted(known),
                                     known_isoforms_in_graph=sorted(in_known), gene_info_empty=empty, path=list(p), count=counts[p], assigner_matches=p in matching, impl=o, novel=bool(o and o[0] == "novel"))))
    # exhaustive small domain: two introns, every strand assignment, every level, both polyA requirements, every gene configuration
    for s1 in "+-.":
        for s2 in "+-.":
            for level in (L.only_canonical, L.only_stranded, L.all):
                for mono in (False, True):
                    for gname in GENES:
                        for known in ([], [i1], [i1, i2]):
                            if quick and rnd.random() < .5: continue
                            inknown = rnd.choice([[], [[i1]], [[i1, i2]], [[i1], [i1, i2]]])
                            empty = gname == "none"
                            one_world({i1: s1, i2: s2}, level, mono, 2, gname, known, inknown, empty, [[i1], [i1, i2], [i2]])
    # random loci with three introns, technical replicas on
    for _ in range(150 if quick else 1500):
        strands = {i: rnd.choice("+-.") for i in (i1, i2, i3)}
        gname = rnd.choice(list(GENES)); known = rnd.sample([i1, i2, i3], rnd.randint(0, 3))
        chains = [sorted(rnd.sample([i1, i2, i3], rnd.randint(1, 3))) for _k in range(2)]
        chains = [list(x) for x in set(tuple(c_) for c_ in chains)]
        one_world(strands, rnd.choice([L.only_canonical, L.only_stranded, L.all]), rnd.random() < .5, rnd.choice([1, 2, 3]), gname, known,
                  [c_ for c_ in chains if rnd.random() < .2], gname == "none" or rnd.random() < .1, chains, reps=rnd.random() < .3)
    ctx.rule("construct_fl_isoforms (REAL method; path storage, profile constructor and assigner stubbed, strand_dict preset) on an exhaustive small domain: two introns x every strand "
             "assignment x 3 reporting levels x require_monointronic_polya x 5 gene configurations (none, one gene, two genes of opposite strands, a gene of strand '.', a tie) x known-intron sets "
             "x known_isoforms_in_graph x polyT/polyA flags x count at/below the cut-off x assigner verdict; plus random three-intron loci with technical replicas; non-trivial = a novel model was emitted")
    m, v = ctx.corr("decide", PRE_DECISION, cases, shard=400, ctype="dcase", nontrivial=lambda o: o["novel"])
    # the strand clause of decision_prop is the known deviation at unit level too: ReportAll may emit '.'
    ctx.corr_report("decide", m, v)


# ------------------------------------------------------------------ the real graph objects on generated loci
def fake_params(rnd):
    return types.SimpleNamespace(delta=rnd.choice([0, 4, 6]), min_novel_intron_count=rnd.choice([0, 1, 2]), graph_clustering_distance=rnd.choice([5, 10, 20]), graph_clustering_ratio=rnd.choice([0.3, 0.5]),
                                 min_novel_isolated_intron_abs=rnd.choice([1, 2, 3, 5]), min_novel_isolated_intron_rel=0.02, singleton_adjacent_cov=rnd.choice([2, 3, 10]), terminal_position_abs=1,
                                 terminal_position_rel=rnd.choice([0.05, 0.1]), terminal_internal_position_rel=rnd.choice([0.05, 0.1]), apa_delta=rnd.choice([10, 50]), debug=False,
                                 requires_polya_for_construction=rnd.random() < .5)

def fake_read(rid, exons, strand, polya, mm=False):
    introns = [(a[1] + 1, b[0] - 1) for a, b in zip(exons, exons[1:])]
    pi = types.SimpleNamespace(external_polya_pos=exons[-1][1] if (polya and strand == "+") else -1, external_polyt_pos=exons[0][0] if (polya and strand == "-") else -1, internal_polya_pos=-1, internal_polyt_pos=-1)
    return types.SimpleNamespace(read_id=rid, corrected_exons=exons, corrected_introns=introns, multimapper=mm, strand=strand, polya_info=pi, read_group="g", mapping_quality=60)

def gen_locus(rnd, small=False):
    """exon grid with jittered boundaries: variants within delta, beyond delta but within the clustering distance, and far"""
    n = rnd.randint(2, 3 if small else 5)
    base = []; p = 1000
    for i in range(n + 1):
        ln = rnd.randint(40, 120); base.append((p, p + ln)); p += ln + rnd.randint(60, 200)
    strand = rnd.choice("+-")
    def jit(): return rnd.choice([0, 0, 0, 0, rnd.randint(-3, 3), rnd.randint(-3, 3), rnd.choice([-1, 1]) * rnd.randint(7, 15), rnd.choice([-1, 1]) * rnd.randint(21, 35)])
    reads = []; k = 0
    for _ in range(rnd.randint(1, 4 if small else 9)):
        idx = sorted(rnd.sample(range(n + 1), rnd.randint(1, n + 1)))
        ex = [base[i] for i in idx]
        ex = [((a + jit()) if j > 0 else a - rnd.choice([0, 0, 5, 60]), (b + jit()) if j < len(ex) - 1 else b + rnd.choice([0, 0, 5, 60])) for j, (a, b) in enumerate(ex)]
        if any(a >= b for a, b in ex) or any(x[1] + 2 > y[0] for x, y in zip(ex, ex[1:])): continue
        polya = rnd.random() < .6; mm = rnd.random() < .08
        for c in range(rnd.choice([1, 1, 1, 2, 3, 6])):
            k += 1; reads.append(fake_read("r%d" % k, ex, strand, polya, mm))
    # bulges and tips next to well covered chains: a single read with one junction moved beyond delta but within the clustering distance,
    # or with an extra unseen terminal intron
    for src in [r for r in reads if len(r.corrected_exons) >= 3 and not r.multimapper][:3]:
        if rnd.random() < .6:
            ex = list(src.corrected_exons); j = rnd.randint(1, len(ex) - 1); sh = rnd.choice([-1, 1]) * rnd.randint(7, 15)
            if rnd.random() < .5: ex[j] = (ex[j][0] + sh, ex[j][1])
            else: ex[j - 1] = (ex[j - 1][0], ex[j - 1][1] + sh)
            if all(a < b for a, b in ex) and all(x[1] + 2 <= y[0] for x, y in zip(ex, ex[1:])):
                for c in range(rnd.choice([3, 4, 6])): k += 1; reads.append(fake_read("r%d" % k, list(src.corrected_exons), strand, True))
                k += 1; reads.append(fake_read("r%d" % k, ex, strand, rnd.random() < .5))
        if rnd.random() < .3:
            ex = list(src.corrected_exons); ex[-1] = (ex[-1][0], ex[-1][0] + 30); ex.append((ex[-1][1] + rnd.randint(60, 150), ex[-1][1] + rnd.randint(200, 260)))
            k += 1; reads.append(fake_read("r%d" % k, ex, strand, False))
    rnd.shuffle(reads)
    iso = {}
    for t in range(rnd.randint(0, 2)):
        idx = sorted(rnd.sample(range(n + 1), rnd.randint(2, n + 1))); iso["T%d" % t] = [base[i] for i in idx]
    return reads, iso

def real_graph(params, reads, iso):
    """run the REAL IntronGraph.__init__ under the recorder; returns the recorded region-like dict"""
    import c04_wrapper as W
    from src import intron_graph as ig, graph_based_model_construction as gb
    W.install_graph()
    introns = {t: [(a[1] + 1, b[0] - 1) for a, b in zip(ex, ex[1:])] for t, ex in iso.items()}
    known = sorted(set(i for l in introns.values() for i in l))
    gi = types.SimpleNamespace(intron_profiles=types.SimpleNamespace(features=known), all_isoforms_introns=introns, all_isoforms_exons=iso, start=1)
    g = ig.IntronGraph(params, gi, reads)
    pp = gb.IntronPathProcessor(params, g)
    threads = []
    for r in reads:
        if r.multimapper or not r.corrected_introns: continue
        p = pp.thread_introns(r.corrected_introns)
        threads.append((list(r.corrected_introns), p))
    kn = []
    for t, ins in introns.items():
        p = pp.thread_introns(ins)
        if p: kn.append(p)
    ps = gb.IntronPathStorage(params, pp); ps.fill(reads)
    cut = sum(1 for p in ps.paths for a, b in zip(p, p[1:]) if a[0] >= 0 and b[0] >= 0 and b not in g.outgoing_edges.get(a, ()))
    return dict(graph=g._c04_graph, threads=threads, known_paths=kn, refs=list(introns.values()), late=g._c04_late.ops,
                paths=[[[list(map(int, v)) for v in p], int(n)] for p, n in ps.paths.items()], fl_paths=[[list(map(int, v)) for v in p] for p in ps.fl_paths],
                pparams=dict(delta=params.delta, apa_delta=params.apa_delta, requires_polya=bool(params.requires_polya_for_construction)), path_steps_without_edge=cut)

def run_graph_unit(ctx, quick):
    rnd = section_rnd(ctx, "graph")
    cases = []; stats = collections.Counter()
    def one(params, reads, iso, origin):
        try:
            r = with_timeout(real_graph, params, reads, iso, seconds=20)
        except ImplTimeout:
            ctx.violation(None, "IntronGraph construction does not terminate", dict(origin=origin, reads=[(x.corrected_exons, x.multimapper) for x in reads])); return
        g = r["graph"]; all_main, touched, final = split_touches(g["ops"]); ops = plain_ops(all_main)
        thr = [t for t in r["threads"] if t[1] is not None]
        term = "(mkR %s %s (%s, %s, %s) %s %s %s %s)" % (creads(g["reads"]), clist(ops, cop), civs_(final[1]), cpairs(final[2]), civs_(final[3]), cchains(r["refs"]), cchains(r["known_paths"]),
                                                         clist(thr, lambda t: "(%s, %s)" % (civs_(t[0]), civs_(t[1]))), civs_(touched))
        stats["Touch"] += len(touched)
        # threads the implementation refused (a discarded intron) must be refused by the model as well: appended as a separate list
        refused = [t[0] for t in r["threads"] if t[1] is None]
        kinds = collections.Counter(o[0] for o in all_main)
        for k_, v_ in kinds.items(): stats[k_] += v_
        stats["path_steps_without_edge"] += r["path_steps_without_edge"]; stats["full_length_paths"] += len(r["fl_paths"])
        cases.append(("(%s, %s, %s, %s, %s, %s, %s)" % (civs_(g["known"]), cz(g["delta"]), cz(g["min_count"]), term, cchains(refused), cpasses(g, all_main), cfill(g, r["paths"], r["fl_paths"], r["pparams"])), dict(origin=origin, params={k_: v_ for k_, v_ in vars(params).items()}, reads=[(x.corrected_exons, x.multimapper, x.strand) for x in reads], isoforms=iso,
                                                                  ops=[o for o in ops if o[0] != "Snap"][:60], final=final[1:4], nontrivial=kinds.get("Collapse", 0) + kinds.get("Discard", 0) + kinds.get("ClusterSubst", 0) + kinds.get("ClusterDiscard", 0) > 0)))
    # small exhaustive family: three similar introns upstream of a common one, every count vector in 0..2, every known subset of two of them
    a, b, c_ = (1101, 1200), (1102, 1200), (1104, 1203)
    for ca, cb, cc in itertools.product(range(3), repeat=3):
        for known in ([], [a], [c_]):
            for mnc in (1, 2):
                reads = []; k = 0
                for iv_, n_ in ((a, ca), (b, cb), (c_, cc)):
                    for _ in range(n_):
                        k += 1; reads.append(fake_read("e%d" % k, [(1000, iv_[0] - 1), (iv_[1] + 1, 1300), (1401, 1500)], "+", True))
                if not reads: continue
                P_ = types.SimpleNamespace(delta=4, min_novel_intron_count=mnc, graph_clustering_distance=10, graph_clustering_ratio=0.5, min_novel_isolated_intron_abs=2, min_novel_isolated_intron_rel=0.02,
                                           singleton_adjacent_cov=3, terminal_position_abs=1, terminal_position_rel=0.05, terminal_internal_position_rel=0.05, apa_delta=50, debug=False, requires_polya_for_construction=False)
                iso = {"K": [(1000, i_[0] - 1) for i_ in known[:1]] + [(known[0][1] + 1, 1300)]} if known else {}
                one(P_, reads, iso, "exhaustive-similar-introns")
    for _ in range(400 if quick else 4000):
        reads, iso = gen_locus(rnd, small=rnd.random() < .3)
        if not reads: continue
        one(fake_params(rnd), reads, iso, "random-locus")
    pre = PRE_CL.replace("GraphCluster.", "GraphCluster GraphPasses GraphPaths.") + """Definition T := (list iv * Z * Z * region * list (list iv) * (gparams * list xevent * list (iv * Z)) * %s)%%type.
Definition refused_ok (r : region) (l : list (list iv)) : bool :=
  match run (init (r_reads r)) (r_ops r) with Some s => forallb (fun c => match thread s c with None => true | Some _ => false end) l | None => false end.
Definition check (c : T) : bool := let '(known, delta, mnc, r, refused, (P, evs, fc), (G, PP, xr, paths, fl)) := c in
  region_check r && refused_ok r refused && cluster_trace_ok known delta mnc r && passes_ok P delta mnc (r_reads r) evs fc && fill_trace_ok (r_reads r) (r_ops r) G PP xr paths fl.
Definition prop (c : T) : bool := let '(known, delta, mnc, r, refused, x, y) := c in region_prop r.
""" % FILL_T
    ctx.rule("graph_system: the REAL IntronGraph.__init__ (collect, cluster, construct, clean_tips_and_bulges, remove_singleton_dead_ends, remove_isolates, simplify_correction_map, attach_terminal_positions) and "
             "the REAL IntronPathProcessor.thread_introns on generated loci (fake read assignments: exon grids with junctions jittered within delta / within the clustering distance / far, coverage 1-6, "
             "multimappers, polyA on either strand, 0-2 annotated isoforms, parameters drawn from the strategy table) plus an exhaustive family of three similar introns with every count vector in 0..2; the same "
             "recorder as the pipeline wrapper logs the mutator calls; non-trivial = the run contains a substitution, collapse or discard")
    m, v = ctx.corr("graph_system", pre, cases, shard=40, ctype="T", nontrivial=lambda o: o["nontrivial"])
    ctx.corr_report("graph_system", m, v)
    ctx.notes.append("graph_system: steps validated: %s" % dict(stats))


# ------------------------------------------------------------------ collect_introns / cluster_introns as a function of the multiset of collected introns
PRE_CL = "From IQ Require Import Exons Graph GraphCluster.\nOpen Scope Z_scope.\n"

def ccounts(l): return clist(l, lambda e: "(%s, %s)" % (civ(tiv(e[0])), cz(e[1])))

def run_cluster_unit(ctx, quick):
    import c04_wrapper as W
    from src import intron_graph as ig
    W.install_graph()
    rnd = section_rnd(ctx, "cluster")
    cases = []
    def real_cluster(known, delta, mnc, items):
        """items: list of (intron, count) in dict insertion order -> (vertices with counts, map, discarded in order, ops)"""
        gi = types.SimpleNamespace(intron_profiles=types.SimpleNamespace(features=list(known)))
        c = ig.IntronCollector(gi, delta)
        d = collections.defaultdict(int)
        for i, n in items: d[i] = n
        c.cluster_introns(d, mnc)
        ops = list(c._c04.ops)
        return list(c.clustered_introns.items()), list(c.intron_correction_map.items()), [tuple(o[1]) for o in ops if o[0] == "ClusterDiscard"], ops, c
    def one(known, delta, mnc, items, origin, reads=None):
        if reads is not None:
            gi = types.SimpleNamespace(intron_profiles=types.SimpleNamespace(features=list(known)))
            items = list(ig.IntronCollector(gi, delta).collect_introns(reads).items())
        V, M, D, ops, _ = real_cluster(known, delta, mnc, items)
        rterm = "(Some %s)" % creads([(bool(r.multimapper), r.corrected_introns) for r in reads]) if reads is not None else "None"
        term = "(%s, %s, %s, %s, %s, (%s, %s, %s, %s))" % (civs_(known), cz(delta), cz(mnc), rterm, ccounts(items), ccounts(V), cpairs(M), civs_(D), clist(ops, cop))
        cases.append((term, dict(origin=origin, known=list(known), delta=delta, min_count=mnc, all_introns_in_dict_order=items, impl=dict(vertices=V, map=M, discarded=D),
                                 reads=[(r.corrected_introns, r.multimapper) for r in reads] if reads is not None else None, nontrivial=bool(M) or bool(D))))
    # exhaustive: five introns (three mutually close, one close to only one of them, one far), every count vector over {absent, 1, 2, 10, 100}
    U = [(10, 30), (11, 30), (12, 31), (14, 33), (40, 60)]
    for counts in itertools.product((0, 1, 2, 10, 100), repeat=len(U)):
        items = [(i, n) for i, n in zip(U, counts) if n]
        if not items: continue
        for known in ([], [(11, 30)], [(10, 30), (14, 33)]):
            for delta, mnc in ((1, 2), (2, 2), (2, 3), (3, 11)):
                if quick and rnd.random() < .8: continue
                it = list(items); rnd.shuffle(it)                      # dict insertion order must not matter
                one(known, delta, mnc, it, "exhaustive-five-introns")
    # random: 2-9 introns on a coarse grid with jitter, counts in {1,2,3,10,100}, equal counts frequent (tie rule: larger intron first)
    for _ in range(1500 if quick else 15000):
        n = rnd.randint(2, 9); base = [(100 * rnd.randint(1, 3), 100 * rnd.randint(5, 7)) for _k in range(3)]
        ints = set()
        while len(ints) < n:
            b = rnd.choice(base); ints.add((b[0] + rnd.randint(0, 7), b[1] + rnd.randint(0, 7)))
        items = [(i, rnd.choice([1, 1, 2, 2, 3, 10, 100])) for i in ints]; rnd.shuffle(items)
        known = [i for i in ints if rnd.random() < .2]
        one(known, rnd.choice([0, 1, 2, 4, 6]), rnd.choice([1, 2, 3, 11]), items, "random")
    # through collect_introns: fake read assignments (multimappers and reads without introns are skipped, repeated introns count twice)
    for _ in range(300 if quick else 3000):
        pool = [(100 + rnd.randint(0, 6), 200 + rnd.randint(0, 6)) for _k in range(3)] + [(300 + rnd.randint(0, 4), 400 + rnd.randint(0, 4)) for _k in range(2)]
        reads = []
        for k in range(rnd.randint(1, 12)):
            ins = [rnd.choice(pool[:3])] * rnd.choice([0, 1, 1, 1, 2]) + [rnd.choice(pool[3:])] * rnd.choice([0, 1, 1])
            reads.append(types.SimpleNamespace(corrected_introns=ins, multimapper=rnd.random() < .15))
        one([i for i in pool if rnd.random() < .2], rnd.choice([0, 2, 4, 6]), rnd.choice([1, 2, 3]), None, "reads", reads=reads)
    pre = PRE_CL + """Definition T := (list iv * Z * Z * option (list read) * list (iv * Z) * (list (iv * Z) * list (iv * iv) * list iv * list op))%type.
Definition check (c : T) : bool := let '(known, delta, mnc, reads, all, (V, M, D, ops)) := c in
  match reads with Some r => list_eqb_ ivz_eqb (collect_counts r) all | None => true end &&
  let '(st, os) := cluster known delta mnc all in cstate_eqb st V M D && list_eqb_ op_eqb os ops.
(* specification of the implementation's result: a substituted intron is unannotated and its substitute is a collected intron within delta on both
   ends, of at least its count, and a vertex; a discarded intron is unannotated, below min_count and has no similar intron; annotated introns are
   vertices; vertices, substituted and discarded introns partition the collected introns; no read is lost from the counts *)
Definition cnt_of (all : list (iv * Z)) (i : iv) : Z := match find (fun e => iv_eqb (fst e) i) all with Some e => snd e | None => 0 end.
Definition sumz (l : list Z) : Z := fold_left Z.add l 0.
Definition prop (c : T) : bool := let '(known, delta, mnc, reads, all, (V, M, D, ops)) := c in
  let ks := map fst all in let vs := map fst V in
  forallb (fun e => negb (mem (fst e) known) && similar delta (fst e) (snd e) && mem (snd e) ks && mem (snd e) vs && (cnt_of all (fst e) <=? cnt_of all (snd e))) M &&
  forallb (fun i => negb (mem i known) && (cnt_of all i <? mnc) && negb (has_similar delta all i)) D &&
  forallb (fun i => negb (mem i ks) || mem i vs) known &&
  same_set ks (vs ++ map fst M ++ D) && (Z.of_nat (length ks) =? Z.of_nat (length vs + length M + length D)) &&
  (sumz (map snd V) + sumz (map (cnt_of all) D) =? sumz (map snd all)).
"""
    ctx.rule("cluster: IntronCollector.collect_introns + cluster_introns (REAL, under the recorder) against the executable model GraphCluster.cluster: exhaustive over five introns (three mutually close, one close to "
             "one of them, one far) x every count vector over {absent,1,2,10,100} x 3 known sets x 4 (delta, min_count) settings with shuffled dict insertion order (quick: a 20% sample); random sets of 2-9 "
             "jittered introns with frequent count ties; fake read assignments through collect_introns (multimappers, reads without introns, introns repeated in a read); compared exactly: dict order of "
             "collect_introns, clustered_introns with counts in insertion order, correction map, discarded introns and the logged operation sequence; non-trivial = a substitution or a discard happens")
    m, v = ctx.corr("cluster", pre, cases, shard=400, ctype="T", nontrivial=lambda o: o["nontrivial"])
    ctx.corr_report("cluster", m, v)


# ------------------------------------------------------------------ collapse_vertex_set: which vertex of a set is collapsed into which
def float_ratio_is_exact(ratio, num, den, upto):
    """count < n * ratio (float) agrees with count * den < n * num for all n <= upto and the counts next to the boundary"""
    for n in range(1, upto + 1):
        f = n * ratio; b = n * num // den
        for c in (b - 1, b, b + 1):
            if (c < f) != (c * den < n * num): return (n, c)
    return None

def run_cvs_unit(ctx, quick):
    import c04_wrapper as W, fractions
    from src import intron_graph as ig
    W.install_graph()
    rnd = section_rnd(ctx, "cvs")
    for ratio in (0.5, 0.3):
        fr = fractions.Fraction(repr(ratio)); bad = float_ratio_is_exact(ratio, fr.numerator, fr.denominator, 20000 if quick else 200000)
        if bad: ctx.broken("assumption:float-ratio", "count < n * %r differs from the exact rational comparison at n=%d count=%d" % (ratio, bad[0], bad[1]))
    cases = []
    def one(dist, ratio, items, origin):
        g = ig.IntronGraph.__new__(ig.IntronGraph)
        object.__setattr__(g, "params", types.SimpleNamespace(graph_clustering_distance=dist, graph_clustering_ratio=ratio))
        cl = collections.defaultdict(int); cl.update(dict(items))
        object.__setattr__(g, "intron_collector", types.SimpleNamespace(clustered_introns=cl, _c04=W.Rec()))
        res = g.collapse_vertex_set(set(i for i, _ in items))
        fr = fractions.Fraction(repr(ratio)); vs = [i for i, _ in items]
        term = "((mkGP %s %s %s 0 []), %s, %s, %s)" % (cz(dist), cz(fr.numerator), cz(fr.denominator), ccounts(items), civs_(vs), cpairs(list(res.items())))
        cases.append((term, dict(origin=origin, graph_clustering_distance=dist, graph_clustering_ratio=ratio, vertices_with_counts=items, impl=list(res.items()), nontrivial=bool(res))))
    U = [(100, 200), (103, 200), (100, 206), (108, 209), (130, 200)]
    for counts in itertools.product((0, 1, 2, 10, 100), repeat=len(U)):
        items = [(i, n) for i, n in zip(U, counts) if n]
        if len(items) < 2: continue
        for dist in (5, 10, 20):
            for ratio in (0.5, 0.3):
                if quick and rnd.random() < .75: continue
                it = list(items); rnd.shuffle(it)
                one(dist, ratio, it, "exhaustive-five-vertices")
    for _ in range(1000 if quick else 10000):
        n = rnd.randint(2, 8); ints = set()
        while len(ints) < n: ints.add((100 + rnd.randint(0, 25), 300 + rnd.randint(0, 25)))
        one(rnd.choice([5, 10, 20]), rnd.choice([0.5, 0.3]), [(i, rnd.choice([1, 1, 2, 3, 4, 6, 10, 20, 100])) for i in ints], "random")
    pre = "From IQ Require Import Exons Graph GraphCluster GraphPasses.\nOpen Scope Z_scope.\n" + """Definition T := (gparams * list (iv * Z) * list iv * list (iv * iv))%type.
Definition check (c : T) : bool := let '(P, C, vs, res) := c in pairs_eqb res (collapse_vertex_set P C vs).
(* specification of the implementation's answer: a collapsed vertex and its target belong to the set, the target is kept (no chains), it is closer
   than the clustering distance at both ends and the collapsed vertex has less than ratio times its count *)
Definition prop (c : T) : bool := let '(P, C, vs, res) := c in
  forallb (fun e => mem (fst e) vs && mem (snd e) vs && negb (iv_eqb (fst e) (snd e)) && negb (mem (snd e) (map fst res)) &&
                    close_enough P C (cnt_lookup C (fst e)) (fst e) (snd e)) res.
"""
    ctx.rule("collapse_vertex_set (REAL method on a bare IntronGraph object) against GraphPasses.collapse_vertex_set: exhaustive over five vertices (three mutually close, one further, one far) x every count "
             "vector over {absent,1,2,10,100} with >= 2 vertices x distance {5,10,20} x ratio {0.5,0.3} (quick: a 25% sample), random sets of 2-8 close vertices; the substitute_dict is compared in insertion order; "
             "the float test `count < n * ratio` is shown equal to the exact rational test for n <= 20000 (thorough 200000) by enumeration; non-trivial = something is collapsed")
    m, v = ctx.corr("collapse_vertex_set", pre, cases, shard=400, ctype="T", nontrivial=lambda o: o["nontrivial"])
    ctx.corr_report("collapse_vertex_set", m, v)


# ------------------------------------------------------------------ the collector's mutators driven directly: substitution chains, discards, simplify_correction_map
def run_collector_unit(ctx, quick):
    import c04_wrapper as W
    from src import intron_graph as ig, graph_based_model_construction as gb
    W.install_graph()
    rnd = section_rnd(ctx, "collector")
    cases = []
    def play(pool, seq):
        """seq: list of ('s', a, b) = add_substitute(a, b) | ('d', a) = discard(a), all valid for the REAL collector; then simplify_correction_map"""
        gi = types.SimpleNamespace(intron_profiles=types.SimpleNamespace(features=[]))
        c = ig.IntronCollector(gi, 0); rec = c._c04
        rec.stack.append("cluster")
        for k, i in enumerate(pool): c.clustered_introns[i] = k + 1
        rec.stack.pop()
        for o in seq:
            if o[0] == "s": c.add_substitute(o[1], o[2])
            else: c.discard(o[1])
        c.simplify_correction_map()
        snap = ["Snap", sorted(c.clustered_introns), sorted(c.intron_correction_map.items()), sorted(c.discarded_introns), []]
        ops = rec.ops + [snap]
        pp = gb.IntronPathProcessor.__new__(gb.IntronPathProcessor); pp.intron_graph = types.SimpleNamespace(intron_collector=c)
        thr = []; refused = []
        for l in [[i] for i in pool] + [list(pool)]:
            r = pp.thread_introns(l)
            if r is None: refused.append(l)
            else: thr.append((l, r))
        term = "(mkR %s %s (%s, %s, %s) [] [] %s [])" % (creads([(False, list(pool))]), clist(ops, cop), civs_(snap[1]), cpairs(snap[2]), civs_(snap[3]), clist(thr, lambda t: "(%s, %s)" % (civs_(t[0]), civs_(t[1]))))
        cases.append(("(%s, %s)" % (term, cchains(refused)), dict(pool=list(pool), calls=[list(o) for o in seq], final_vertices=snap[1], final_map=snap[2], final_discarded=snap[3],
                                                                  nontrivial=any(o[0] == "s" for o in seq) and any(o[0] == "d" for o in seq))))
    def moves(verts):
        return [("s", a, b) for a in verts for b in verts if a != b] + [("d", a) for a in verts]
    pool4 = [(101, 200), (103, 201), (301, 400), (305, 398)]
    def dfs(verts, seq, depth):
        play(pool4, seq)
        if depth == 0: return
        for mv in moves(verts):
            if quick and depth < 3 and rnd.random() < .6: continue
            dfs([v for v in verts if v != mv[1]], seq + [mv], depth - 1)
    dfs(list(pool4), [], 3)
    pool8 = [(100 * k + 1 + j, 100 * k + 60 + j) for k in range(4) for j in (0, 3)]
    for _ in range(300 if quick else 3000):
        verts = list(pool8); seq = []
        for _k in range(rnd.randint(2, 7)):
            if len(verts) < 2: break
            mv = rnd.choice(moves(verts)) if rnd.random() < .8 else ("d", rnd.choice(verts))
            seq.append(mv); verts.remove(mv[1])
        play(pool8, seq)
    pre = PRE + """Definition T := (region * list (list iv))%type.
Definition refused_ok (r : region) (l : list (list iv)) : bool :=
  match run (init (r_reads r)) (r_ops r) with Some s => forallb (fun c => match thread s c with None => true | Some _ => false end) l | None => false end.
Definition check (c : T) : bool := region_check (fst c) && refused_ok (fst c) (snd c).
Definition prop (c : T) : bool := region_prop (fst c).
"""
    ctx.rule("collector: the REAL IntronCollector.add_substitute / discard / simplify_correction_map and IntronPathProcessor.thread_introns driven directly: every valid call sequence of length <= 3 over four introns "
             "(quick: a sample of the deeper ones) and random sequences of 2-7 calls over eight introns (substitution chains a->b->c, substitutes discarded afterwards); the final vertex set, map and discarded set "
             "must be those of the abstract system, every threaded intron list must agree; non-trivial = the sequence contains a substitution and a discard")
    m, v = ctx.corr("collector", pre, cases, shard=150, ctype="T", nontrivial=lambda o: o["nontrivial"])
    ctx.corr_report("collector", m, v)


# ------------------------------------------------------------------ detect_similar_isoforms: who may absorb whom
def run_similar_unit(ctx, quick):
    from src import graph_based_model_construction as gb
    from src.gene_info import TranscriptModelType
    rnd = section_rnd(ctx, "similar")
    saved = (gb.GeneInfo, gb.LongReadAssigner, gb.CombinedProfileConstructor, gb.is_matching_assignment)
    cases = []
    try:
        class GI:
            @staticmethod
            def from_models(models, delta): return models[0]
        class Asg:
            def __init__(self, gi, params, **k): self.big = gi
            def assign_to_isoform(self, tid, profile): return (tid, self.big.transcript_id)
        class PC:
            def __init__(self, gi, params): pass
            def construct_profiles(self, exons, polya, x): return exons
        gb.GeneInfo = GI; gb.LongReadAssigner = Asg; gb.CombinedProfileConstructor = PC
        def one(models, oracle):
            gb.is_matching_assignment = lambda a: a in oracle
            c = gb.GraphBasedModelConstructor.__new__(gb.GraphBasedModelConstructor); c.params = types.SimpleNamespace(delta=6)
            storage = [types.SimpleNamespace(transcript_id="m%d" % i, transcript_type=TranscriptModelType.known if kn else TranscriptModelType.novel_not_in_catalog,
                                             exon_blocks=[(100 * j + 1, 100 * j + 50) for j in range(ne)], intron_path=tuple((100 * j + 51, 100 * j + 100) for j in range(ne - 1)) if path else ())
                       for i, (kn, ne, path) in enumerate(models)]
            res = c.detect_similar_isoforms(storage)
            ids_ = sorted(int(k[1:]) for k in res)
            mt = clist(list(enumerate(models)), lambda e: "(mkM %s %s %s %s)" % (cz(e[0]), cbool(e[1][0]), cz(e[1][1]), civs_([(100 * j + 51, 100 * j + 100) for j in range(e[1][1] - 1)] if e[1][2] else [])))
            ot = clist(sorted(oracle), lambda e: "(%s, %s)" % (cz(int(e[0][1:])), cz(int(e[1][1:]))))
            cases.append(("(%s, %s, %s)" % (mt, ot, czs(ids_)), dict(models=[dict(known=kn, exons=ne, has_intron_path=path) for kn, ne, path in models], assigner_matches=sorted(oracle), impl=dict(res), nontrivial=bool(res))))
        kinds = [(kn, ne, path) for kn in (False, True) for ne in (1, 2, 3, 4) for path in (True, False) if not (ne == 1 and path)]
        for m1 in kinds:
            for m2 in kinds:
                for bits in range(4):
                    one([m1, m2], set(x for x, b in zip([("m0", "m1"), ("m1", "m0")], (bits & 1, bits & 2)) if b))
        pairs3 = [("m%d" % i, "m%d" % j) for i in range(3) for j in range(3) if i != j]
        for _ in range(600 if quick else 6000):
            ms = [rnd.choice(kinds) for _k in range(3)]
            one(ms, set(p for p in pairs3 if rnd.random() < .5))
    finally:
        gb.GeneInfo, gb.LongReadAssigner, gb.CombinedProfileConstructor, gb.is_matching_assignment = saved
    pre = PRE + """Definition T := (list nmodel * list (Z * Z) * list Z)%type.
Definition oracle (l : list (Z * Z)) (m big : nmodel) : bool := existsb (fun e => (fst e =? m_id m) && (snd e =? m_id big)) l.
Definition check (c : T) : bool := let '(ms, o, out) := c in
  let r := detect_similar (oracle o) ms in forallb (fun x => zmem x out) r && forallb (fun x => zmem x r) out.
(* whoever is absorbed is a novel model with introns, absorbed by a model of more than two exons and at least as many exons;
   and no comparable pair that the assigner matches survives as a pair: for a novel m with introns and a different model big of more than two
   exons and at least as many exons (EQUAL counts included - alternative ends of one chain) with a matching assignment, m or big is absorbed *)
Definition comparable (m big : nmodel) : bool :=
  negb (m_known m) && negb (m_id m =? m_id big) && negb (m_nexons m =? 1) && negb (is_nil (m_chain m)) && (m_nexons m <=? m_nexons big) && (2 <? m_nexons big).
Definition prop (c : T) : bool := let '(ms, o, out) := c in
  forallb (fun x => existsb (fun m => (m_id m =? x) && negb (m_known m) && negb (is_nil (m_chain m)) &&
                                       existsb (fun big => (2 <? m_nexons big) && (m_nexons m <=? m_nexons big) && negb (m_id big =? x)) ms) ms) out &&
  forallb (fun big => forallb (fun m => negb (comparable m big && oracle o m big) || zmem (m_id m) out || zmem (m_id big) out) ms) ms.
"""
    ctx.rule("detect_similar_isoforms (REAL loop; GeneInfo.from_models / LongReadAssigner / CombinedProfileConstructor / is_matching_assignment replaced by an oracle table): every pair of model kinds "
             "(known/novel x 1-4 exons x with/without intron path) x every oracle, random triples; non-trivial = some model is absorbed")
    m, v = ctx.corr("detect_similar", pre, cases, shard=400, ctype="T", nontrivial=lambda o: o["nontrivial"])
    ctx.corr_report("detect_similar", m, v)


SECTIONS = collections.OrderedDict()

def run(ctx, only=None):
    quick = ctx.tier == "quick"
    import logging
    logging.getLogger('IsoQuant').setLevel(logging.CRITICAL)
    ctx.prepare("C04.v")
    ctx.exhaustive = False
    for f in (run_strand_unit, run_decide_unit, run_similar_unit, run_cluster_unit, run_cvs_unit, run_collector_unit, run_graph_unit, run_pipeline):
        if only and f not in only: continue
        t0 = time.time(); f(ctx, quick); ctx.notes.append("%s: %.0f s" % (f.__name__, time.time() - t0))
    ctx.rule("pipeline: isoquant.py under harness/c04_wrapper.py (logging containers + bracketed mutators, behaviour unchanged) on the bundled chr9 data with each of the 8 --model_construction_strategy presets, "
             "without --genedb (default and `all` + --report_novel_unspliced), with --report_canonical all (with and without polyA requirement); on generated worlds (c04.make_world: gen_data.World with known / "
             "truncated / jittered reads, unannotated exon-skipping chains, alternative 3' ends, bulges, tips, an unannotated locus) with default_ont + 2 sampled presets (thorough: all 8), without --genedb, with "
             "--report_canonical all with and without --genedb, 1-3 threads; on the two corpus worlds reproducing the by-design deviations, on collapsed_ends_world (a four-exon novel chain with two polyA sites 600 bp apart that must come out as ONE model), on the dot-strand world with every preset WITHOUT --report_canonical and with `--report_canonical auto` + preset all (the level `all` counts as asked for only with --report_canonical all, or auto together with the preset all; the option's default is only_stranded), on mapq_world (two-exon novel models whose mean MAPQ after re-assignment of mono-exonic MAPQ-5 reads is below / above the cut-off: the removed model must take its rows with it), on the bundled data with two reads of a novel two-exon isoform lowered to MAPQ 6, and on substituted_annotated_intron_world (a weakly covered annotated intron collapsed into a well covered unannotated neighbour: the model through it must be .nnic); each corpus run checks that its scenario was exercised. Per processed region Coq checks that the logged mutator sequence "
             "is a run of the abstract system from the collected read introns (every precondition, five snapshots, final vertex set / map / discarded set), that known_isoforms_in_graph and the intron part of every "
             "full-length path are the threaded images computed by the model, that every decision of construct_fl_isoforms is the one of `decide`, and that the logged store operations are a run of the store system "
             "ending in the logged read table. Per run and chromosome Coq evaluates novel_ok (Appendix E) on transcript_models.gtf, transcript_model_reads.tsv, corrected_reads.bed and the input GTF; non-trivial = "
             "a region with a substitution / collapse / discard, a region emitting a novel model, a chromosome with a spliced novel model")
    ctx.notes.append("per region Coq additionally recomputes: the clustering operations from the logged reads (GraphCluster.cluster = logged prefix), the add_edge sequence (construct_ops), every collapse_vertex_set "
                     "answer with the counts it read, the collapse_vertex calls that follow each answer, remove_isolates' discards, the clustered_introns counts at the end (GraphPasses.passes_ok), and path_storage.paths / "
                     "fl_paths from the finished graph (GraphPaths.fill_trace_ok). Observation (not a C04 violation): a defaultdict look-up `clustered_introns[i]` on a stale neighbour set can re-create a collapsed intron as a "
                     "zero-coverage key in the middle of clean_tips_and_bulges; remove_isolates then discards it and every read containing that intron is dropped from path construction (modelled: Touch step, discard of a key).")
    ctx.notes.append("decided inside Coq: validity of every logged step (preconditions), agreement of snapshots, threading, known paths, decisions (strand, gene, nic), store runs and the read table, every clause of "
                     "novel_ok including which clause fails and whether a failing duplicate / strand matches the structural description of the two by-design findings (duplicates_left_by_design: the model has <= 2 exons, or for every same-strand duplicate "
                     "of the chain the assigner of the tree under test, replayed by the wrapper on the pair in both directions as detect_similar_isoforms calls it, gives no matching assignment; strand '.' with only the strand clause failing) - the run-level fact `--report_canonical all` comes from the command line. "
                     "Python side (adapters): parsing GTF / BED / TSV, interning ids, joining a model with its chromosome's lists, grouping trace records, gene ids numbered in string order.")
    ctx.assume.append("harness/c04_wrapper.py logs every mutation: the three collector containers and the two edge dictionaries are replaced by logging subclasses of the same built-in types (any mutation outside a known "
                      "mutator becomes a `Raw` step that the abstract system rejects; mutations of the edge SETS are attributed to add_edge / collapse_vertex / attach_transcpt_ends and checked by the snapshots only)")
    ctx.assume.append("still inputs / oracles of the model (the theorems hold for every answer they can give): the assigner (LongReadAssigner / is_matching_assignment, also inside detect_similar_isoforms), canonical-site look-ups "
                      "in the reference; remove_singleton_dead_ends (which successor sets are cut, which vertices lose their edges); which vertices are isolated (is_isolated needs both edge dictionaries; the model keeps the "
                      "outgoing one) and the neighbour sets the incoming loop of clean_tips_and_bulges / a stale (already collapsed) vertex passes to collapse_vertex_set; attach_terminal_positions with "
                      "cluster_polya_positions / cluster_terminal_positions (terminal vertices and their float cut-offs); the relative coverage cut-offs of filter_transcripts. EXECUTABLE and corresponded: collect_introns, "
                      "cluster_introns, construct, collapse_vertex_set, the collapse loops with their to_remove bookkeeping, remove_isolates' collapse + discard rule, count bookkeeping of clustered_introns, "
                      "simplify_correction_map, thread_introns / thread_ends / thread_starts / IntronPathStorage.fill, construct_fl_isoforms' decision, detect_similar_isoforms' loop, the model store")
    ctx.assume.append("float test `count < n * graph_clustering_ratio` equals the exact rational test (enumerated for n <= 20000 / 200000 on every run; ratios 0.5 and 0.3)")
    ctx.assume.append("GTF / BED / TSV parsers of harness/pipeline.py; corrected_reads.bed rows are the corrected alignments of the input reads (C14); exons of a model are get_exons(range, intron_path) (C03) so that its "
                      "printed chain is its intron path (model_chain_is_path under wfp, checked on every decision by decision_prop through the vertex-set clause)")


def replay(ctx, rep):
    """re-run only the section that produced the replay file (sections are seeded independently)"""
    r = rep.get("replay") or {}
    name = r.get("correspondence") or ""
    if not name and rep.get("no_longer_checks"):
        name = next((x.split("correspondence:", 1)[1] for x in rep["no_longer_checks"] if x.startswith("correspondence:")), "")
    sec = {"cluster": run_cluster_unit, "collapse_vertex_set": run_cvs_unit, "strand_functions": run_strand_unit, "decide": run_decide_unit, "detect_similar": run_similar_unit, "collector": run_collector_unit, "graph_system": run_graph_unit}.get(name)
    if sec is None and name.startswith("pipeline"): sec = run_pipeline
    return run(ctx, only=[sec] if sec else None)
