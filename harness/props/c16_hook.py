"""C16 trace wrapper: runs the unmodified isoquant.py of $VERIF_REPO with two observation points, nothing is changed:
  P  <max_fake_terminal_exon_len> <window> <fraction numerator/denominator as printed> <polyA_count>   once per AlignmentCollector
  D  <read id> <chromosome> <reference_start> <cigar string> <ext polyA> <ext polyT> <int polyA> <int polyT>   per PolyAFinder.detect_polya call
  X  <read id> <chromosome> <reference_start> <cigar string> <read_exons after AlignmentInfo.add_polya_info, a-b,c-d,...>   per add_polya_info call
Lines are appended to $C16_LOG with one write each (worker processes inherit the wrapper by fork)."""
import os, sys, runpy

repo = os.environ.get("VERIF_REPO", "/repo")
sys.path.insert(0, repo)
from src import alignment_processor, polya_finder, alignment_info

_log = os.environ.get("C16_LOG")

def _emit(line):
    if not _log: return
    try:
        fd = os.open(_log, os.O_WRONLY | os.O_APPEND | os.O_CREAT, 0o644)
        os.write(fd, (line + "\n").encode()); os.close(fd)
    except Exception:
        pass

_orig_init = alignment_processor.AlignmentCollector.__init__
def _init(self, *a, **k):
    _orig_init(self, *a, **k)
    try:
        f = self.polya_finder
        _emit("P\t%d\t%d\t%r\t%d" % (self.polya_fixer.params.max_fake_terminal_exon_len, f.window_size, f.min_polya_fraction, f.polyA_count))
    except Exception as e:
        _emit("E\t%r" % (e,))
alignment_processor.AlignmentCollector.__init__ = _init

_orig_detect = polya_finder.PolyAFinder.detect_polya
def _detect(self, alignment):
    res = _orig_detect(self, alignment)
    try:
        _emit("D\t%s\t%s\t%d\t%s\t%d\t%d\t%d\t%d" % (alignment.query_name, alignment.reference_name, alignment.reference_start, alignment.cigarstring,
                                                    res.external_polya_pos, res.external_polyt_pos, res.internal_polya_pos, res.internal_polyt_pos))
    except Exception as e:
        _emit("E\t%r" % (e,))
    return res
polya_finder.PolyAFinder.detect_polya = _detect

_orig_add = alignment_info.AlignmentInfo.add_polya_info
def _add(self, polya_finder_, polya_fixer_):
    res = _orig_add(self, polya_finder_, polya_fixer_)
    try:
        a = self.alignment
        _emit("X\t%s\t%s\t%d\t%s\t%s" % (a.query_name, a.reference_name, a.reference_start, a.cigarstring, ",".join("%d-%d" % (e[0], e[1]) for e in self.read_exons)))
    except Exception as e:
        _emit("E\t%r" % (e,))
    return res
alignment_info.AlignmentInfo.add_polya_info = _add

script = os.path.join(repo, "isoquant.py")
sys.argv[0] = script
runpy.run_path(script, run_name="__main__")
