"""Shared helpers of the C17 / C18 checks: Coq printers for strings and records, fake gene databases, and the adapter that runs
the REAL GraphBasedModelConstructor.construct_fl_isoforms / generate_monoexon_from_clustered on stubbed path storages."""
import collections, types, re, os
from lib import *


def cs(s):
    """Python str -> Coq list of byte values"""
    return cstr_bytes(s)
def cstrs(l): return clist(l, cs)
def typed(cases):
    """wrap every case term in the identity `tc` of the preamble, which fixes its type (empty lists are ambiguous otherwise)"""
    return [("(tc %s)" % t, o) for t, o in cases]
def cstrand(s): return {"+": "Plus", "-": "Minus"}.get(s, "Dot")
def cintrons(l): return clist(l, civ)


# ---------------------------------------------------------------- fake gffutils database
class FakeFeature:
    def __init__(self, fid, start=1, end=2, strand="+", attributes=None):
        self.id = fid; self.start = start; self.end = end; self.strand = strand; self.attributes = attributes or {}

class FakeDB:
    """the part of gffutils.FeatureDB that id_policy.py uses: region(seqid=, start=, featuretype=)"""
    def __init__(self, feats):
        self.feats = feats          # list of (seqid, featuretype, FakeFeature)
        self.calls = []
    def region(self, seqid=None, start=None, end=None, featuretype=None):
        types_ = (featuretype,) if isinstance(featuretype, str) else tuple(featuretype)
        self.calls.append((seqid, start, types_))
        for sid, ft, f in self.feats:
            if sid == seqid and ft in types_:
                yield f


# ---------------------------------------------------------------- GTF in file order
def parse_gtf_ordered(path):
    import pipeline as P
    tlines = []; glines = []; trs = collections.OrderedDict(); exons = []
    for l in P.opn(path):
        if l.startswith("#") or not l.strip(): continue
        v = l.rstrip("\n").split("\t")
        a = dict(re.findall(r'(\S+) "([^"]*)"', v[8]))
        if v[2] == "gene":
            glines.append((a["gene_id"], v[0]))
        elif v[2] in ("transcript", "mRNA"):
            tlines.append(a["transcript_id"])
            t = trs.setdefault(a["transcript_id"], dict(id=a["transcript_id"], gene=a.get("gene_id", ""), chr=v[0], strand=v[6], exons=[], attrs=a))
            t["attrs"] = a
        elif v[2] == "exon":
            t = trs.setdefault(a["transcript_id"], dict(id=a["transcript_id"], gene=a.get("gene_id", ""), chr=v[0], strand=v[6], exons=[], attrs={}))
            t["exons"].append((int(v[3]), int(v[4])))
            if "exon_id" in a: exons.append(((v[0], int(v[3]), int(v[4]), v[6]), a["exon_id"]))
    for t in trs.values(): t["exons"].sort()
    return dict(tlines=tlines, glines=glines, trs=list(trs.values()), exons=exons)

def ckey(k): return "(%s, %s, %s, %s)" % (cs(k[0]), cz(k[1]), cz(k[2]), cs(k[3]))
def cgtf(g):
    return "{| f_tlines := %s; f_glines := %s; f_trs := %s; f_exons := %s |}" % (
        cstrs(g["tlines"]), clist(g["glines"], lambda p: "(%s, %s)" % (cs(p[0]), cs(p[1]))),
        clist(g["trs"], lambda t: "{| t_id := %s; t_gene := %s; t_chr := %s; t_strand := %s; t_exons := %s |}" % (cs(t["id"]), cs(t["gene"]), cs(t["chr"]), cs(t["strand"]), civs(t["exons"]))),
        clist(g["exons"], lambda r: "(%s, %s)" % (ckey(r[0]), cs(r[1]))))


# ---------------------------------------------------------------- the real constructor on stubs
class RecDict(dict):
    """dict that records the order of look-ups: construct_fl_isoforms reads paths[path] once per processed path, in processing order"""
    def __init__(self, *a):
        super().__init__(*a); self.order = []
    def __getitem__(self, k):
        self.order.append(k); return super().__getitem__(k)

def make_constructor(chr_id, ref_seq, isoforms, gene_strands, empty, known_introns, params, distributor):
    """isoforms: list of (tid, strand, gene, introns)"""
    from src.graph_based_model_construction import GraphBasedModelConstructor
    from src.gene_info import StrandDetector
    c = GraphBasedModelConstructor.__new__(GraphBasedModelConstructor)
    c.gene_info = types.SimpleNamespace(chr_id=chr_id, all_isoforms_introns=collections.OrderedDict((t, list(i)) for t, s, g, i in isoforms),
                                        isoform_strands={t: s for t, s, g, i in isoforms}, gene_id_map={t: g for t, s, g, i in isoforms},
                                        gene_strands=dict(gene_strands), empty=lambda: empty)
    c.chr_record = ref_seq
    c.params = params
    c.id_distributor = distributor
    c.strand_detector = StrandDetector(ref_seq)
    c.intron_genes = collections.defaultdict(set)
    c.set_gene_properties()
    c.known_isoforms_in_graph = {}
    c.known_introns = set(known_introns)
    c.transcript_model_storage = []; c.transcript_read_ids = collections.defaultdict(list)
    c.internal_counter = collections.defaultdict(int); c.read_assignment_counts = collections.defaultdict(int)
    return c

def run_fl(c, paths, matching, in_known):
    """paths: list of (path tuple, count); matching: set of path tuples the stub assigner reports as reference matches;
       in_known: set of intron paths present in known_isoforms_in_graph.
       Returns the processed paths in processing order, each with what the constructor made of it:
       None | ("known", name) | ("novel", strand, transcript_id, gene_id, type name)"""
    from src.graph_based_model_construction import GraphBasedModelConstructor
    from src.isoform_assignment import ReadAssignmentType
    from src.gene_info import TranscriptModel, TranscriptModelType
    from src.common import get_exons
    GraphBasedModelConstructor.detected_known_isoforms = set()
    rec = RecDict(dict(paths))
    reads = {p: [types.SimpleNamespace(read_id="read_of_path_%d" % k, read_group="g", path=p)] for k, (p, _) in enumerate(paths)}
    c.path_storage = types.SimpleNamespace(fl_paths=set(p for p, _ in paths), paths=rec, paths_to_reads=reads)
    c.known_isoforms_in_graph = {ip: "ref_%d" % k for k, ip in enumerate(in_known)}
    by_exons = {}
    for k, (p, _) in enumerate(paths):
        ip = p[1:-1]
        if ip:
            key = tuple(get_exons((p[0][1], p[-1][1]), list(ip)))
            assert key not in by_exons, "generator produced two paths with the same exons"
            by_exons[key] = (k, p)
    class Asg:
        def __init__(self, m, name):
            self.assignment_type = ReadAssignmentType.unique if m else ReadAssignmentType.inconsistent
            self.isoform_matches = [types.SimpleNamespace(assigned_transcript=name)] if m else []
    def assign(tid, prof):
        k, p = by_exons[tuple(prof)]
        return Asg(p in matching, "known_of_%d" % k)
    c.profile_constructor = types.SimpleNamespace(construct_profiles=lambda exons, polya_info, x: exons)
    c.assigner = types.SimpleNamespace(assign_to_isoform=assign)
    c.transcript_from_reference = lambda iso: TranscriptModel(c.gene_info.chr_id, ".", iso, "KNOWN", [(1, 2)], TranscriptModelType.known)
    before = len(c.transcript_model_storage)
    c.construct_fl_isoforms()
    made = {}
    for m in c.transcript_model_storage[before:]:
        rs = c.transcript_read_ids[m.transcript_id]
        assert len(rs) == 1
        made[rs[0].path] = ("known", m.transcript_id) if m.transcript_type == TranscriptModelType.known else \
                           ("novel", m.strand, m.transcript_id, m.gene_id, m.transcript_type.name)
    return [(p, made.get(p)) for p in rec.order]
