#!/usr/bin/env python3
"""Synthetic genome / annotation / alignments for IsoQuant checks (prototype). Deterministic from the seed.
   World model: chromosomes -> genes (strand, exon pool) -> isoforms (index lists into the pool);
   reads are derived from an exon chain by a recipe and written as BAM records with ground truth."""
import random, json, os, sys, gzip
import pysam
COMP = str.maketrans("ACGTacgt", "TGCAtgca")

class World:
    def __init__(self, seed, n_chr=2, chr_len=(40000, 90000), genes_per_chr=(2, 4), lower_frac=0.0):
        self.rnd = random.Random(seed); self.chroms = {}; self.genes = []; self.reads = []; self.truth = {}
        for c in range(n_chr):
            name = "chr%s" % "ABCDEFG"[c]; L = self.rnd.randint(*chr_len)
            self.chroms[name] = [self.rnd.choice("ACGT") for _ in range(L)]
            pos = 2000
            for g in range(self.rnd.randint(*genes_per_chr)):
                gene = self.make_gene("%s_G%d" % (name, g), name, pos)
                if gene is None: break
                self.genes.append(gene); pos = gene["end"] + self.rnd.choice([-600, 800, 3000])   # sometimes overlapping the previous gene
        for name in self.chroms:
            if lower_frac:
                s = self.chroms[name]
                for i in range(len(s)):
                    if self.rnd.random() < lower_frac: s[i] = s[i].lower()
            self.chroms[name] = "".join(self.chroms[name])

    def make_gene(self, gid, chrom, start):
        rnd = self.rnd; L = len(self.chroms[chrom]); strand = rnd.choice("+-")
        n = rnd.choice([1, 3, 4, 5, 6, 8]); pool = []; p = max(1000, start)
        for i in range(n):
            ln = rnd.choice([rnd.randint(60, 300), rnd.randint(20, 60), rnd.randint(300, 900)])
            if p + ln + 1500 > L: return None if not pool else None
            pool.append((p, p + ln - 1)); p += ln + rnd.choice([rnd.randint(80, 400), rnd.randint(400, 3000)])
        isoforms = {gid + ".T0": list(range(n))}
        for k in range(rnd.randint(0, 3)):
            if n < 3: break
            keep = [0] + [i for i in range(1, n - 1) if rnd.random() < 0.7] + [n - 1]
            if keep not in isoforms.values() and len(keep) >= 2: isoforms["%s.T%d" % (gid, len(isoforms))] = keep
        gene = dict(id=gid, chr=chrom, strand=strand, pool=pool, isoforms=isoforms, start=pool[0][0], end=pool[-1][1])
        for ix in isoforms.values(): self.plant([pool[i] for i in ix], chrom, strand)
        return gene

    def plant(self, exons, chrom, strand):
        s = self.chroms[chrom]
        for a, b in zip(exons[:-1], exons[1:]):
            l, r = a[1] + 1, b[0] - 1
            d, acc = ("GT", "AG") if strand == "+" else ("CT", "AC")
            s[l - 1:l + 1] = d; s[r - 2:r] = acc

    # ---------- reads ----------
    def add_read(self, name, chrom, exons, strand, polya=True, flag=0, mapq=60, indel=None, tags=None, truth=None):
        seq = self.chroms[chrom]; cig = []; q = ""
        for k, (a, b) in enumerate(exons):
            if k: cig.append((3, a - exons[k - 1][1] - 1))
            ln = b - a + 1; sub = seq[a - 1:b].upper()
            if indel == "D" and k == len(exons) // 2 and ln > 50: cig += [(0, 20), (2, 3), (0, ln - 23)]; sub = sub[:20] + sub[23:]
            elif indel == "I" and k == len(exons) // 2 and ln > 50: cig += [(0, 20), (1, 2), (0, ln - 20)]; sub = sub[:20] + "GG" + sub[20:]
            else: cig.append((0, ln))
            q += sub
        if polya:
            if strand == "+": cig.append((4, 25)); q += "A" * 25
            else: cig.insert(0, (4, 25)); q = "T" * 25 + q
        self.reads.append(dict(name=name, chr=chrom, start=exons[0][0] - 1, cigar=cig, seq=q, flag=flag | (16 if strand == "-" else 0), mapq=mapq, tags=tags or {}))
        if truth is not None: self.truth.setdefault(name, []).append(dict(truth, chr=chrom, exons=exons))

    def reads_from_annotation(self, per_isoform=4, delta=4):
        rnd = self.rnd; n = 0
        for g in self.genes:
            for tid, ix in g["isoforms"].items():
                full = [g["pool"][i] for i in ix]
                for rep in range(per_isoform):
                    kind = rnd.choice(["fl", "fl", "jit", "del", "ins", "tr5", "tr3"]) if len(full) > 1 else "fl"
                    ex = list(full); polya = True; indel = None
                    if kind == "jit": ex = [((a + rnd.randint(-delta, delta)) if k > 0 else a, (b + rnd.randint(-delta, delta)) if k < len(full) - 1 else b) for k, (a, b) in enumerate(full)]
                    elif kind == "del": indel = "D"
                    elif kind == "ins": indel = "I"
                    elif kind in ("tr5", "tr3") and len(full) > 2:
                        cut_left = (kind == "tr5") == (g["strand"] == "+")
                        if cut_left: ex = [(full[1][0] + min(30, (full[1][1] - full[1][0]) // 2), full[1][1])] + full[2:]
                        else: ex = full[:-2] + [(full[-2][0], full[-2][1] - min(30, (full[-2][1] - full[-2][0]) // 2))]
                        polya = kind == "tr5"
                    self.add_read("%s_%s_%d" % (kind, tid, n), g["chr"], ex, g["strand"], polya=polya, indel=indel,
                                  tags={"RG": rnd.choice(["zeta", "alpha", "mid"])}, truth=dict(kind=kind, gene=g["id"], isoform=tid, positive=True)); n += 1
        return n

    def novel_reads(self, per_gene=6):
        rnd = self.rnd; n = 0
        for g in self.genes:
            pool = g["pool"]
            if len(pool) < 4: continue
            chain = [0] + [len(pool) - 2, len(pool) - 1]                       # skips all middle exons: usually unannotated
            if chain in g["isoforms"].values(): continue
            for rep in range(per_gene):
                self.add_read("novel_%s_%d" % (g["id"], n), g["chr"], [pool[i] for i in chain], g["strand"], truth=dict(kind="novel_skip", gene=g["id"], isoform=None, positive=False)); n += 1
        return n

    # ---------- output ----------
    def write(self, out_dir, n_bams=1, gz=False):
        os.makedirs(out_dir, exist_ok=True)
        with open(os.path.join(out_dir, "genome.fa"), "w") as f:
            for c, s in self.chroms.items(): f.write(">%s\n" % c + "\n".join(s[i:i + 80] for i in range(0, len(s), 80)) + "\n")
        op = (lambda p: gzip.open(p + ".gz", "wt")) if gz else (lambda p: open(p, "w"))
        with op(os.path.join(out_dir, "annotation.gtf")) as f:
            for g in self.genes:
                f.write('%s\tsyn\tgene\t%d\t%d\t.\t%s\t.\tgene_id "%s";\n' % (g["chr"], g["start"], g["end"], g["strand"], g["id"]))
                for tid, ix in g["isoforms"].items():
                    ex = [g["pool"][i] for i in ix]
                    f.write('%s\tsyn\ttranscript\t%d\t%d\t.\t%s\t.\tgene_id "%s"; transcript_id "%s";\n' % (g["chr"], ex[0][0], ex[-1][1], g["strand"], g["id"], tid))
                    for a, b in ex: f.write('%s\tsyn\texon\t%d\t%d\t.\t%s\t.\tgene_id "%s"; transcript_id "%s";\n' % (g["chr"], a, b, g["strand"], g["id"], tid))
        names = list(self.chroms); hdr = {"HD": {"VN": "1.6", "SO": "unsorted"}, "SQ": [{"SN": c, "LN": len(self.chroms[c])} for c in names]}
        paths = []
        for b in range(n_bams):
            u = os.path.join(out_dir, "u%d.bam" % b); p = os.path.join(out_dir, "reads%d.bam" % b)
            with pysam.AlignmentFile(u, "wb", header=hdr) as out:
                for i, r in enumerate(self.reads):
                    if i % n_bams != b: continue
                    a = pysam.AlignedSegment(); a.query_name = r["name"]; a.flag = r["flag"]; a.reference_id = names.index(r["chr"]); a.reference_start = r["start"]
                    a.cigartuples = r["cigar"]; a.query_sequence = r["seq"]; a.mapping_quality = r["mapq"]
                    for t, v in r["tags"].items(): a.set_tag(t, v)
                    out.write(a)
            pysam.sort("-o", p, u); pysam.index(p); os.remove(u); paths.append(p)
        json.dump(self.truth, open(os.path.join(out_dir, "truth.json"), "w"))
        return paths

if __name__ == "__main__":
    seed = int(sys.argv[1]); out = sys.argv[2]
    w = World(seed); a = w.reads_from_annotation(); b = w.novel_reads(); w.write(out)
    print("genes", len(w.genes), "isoforms", sum(len(g["isoforms"]) for g in w.genes), "reads", a + b)
