"""Running the real IsoQuant pipeline on scratch copies of inputs, and parsing its outputs.

Every run gets a private output directory and a private $HOME (the annotation cache under ~/.config/IsoQuant couples runs
otherwise), a fresh interpreter, PYTHONPATH=<repo>, a fixed PYTHONHASHSEED unless given.  Bundled inputs are copied first:
pyfaidx writes index files next to the reference."""
import os, sys, subprocess, shutil, gzip, re, json, tempfile, collections
import lib

def scratch(prefix="iqrun_"):
    return tempfile.mkdtemp(prefix=prefix)

def bundled(dest, which="simple"):
    """copy the bundled data set into dest and return a dict of paths"""
    os.makedirs(dest, exist_ok=True)
    if which == "simple":
        src = os.path.join(lib.REPO, "tests", "simple_data")
        names = ["chr9.4M.ont.sim.polya.bam", "chr9.4M.ont.sim.polya.bam.bai", "chr9.4M.fa.gz", "chr9.4M.gtf.gz", "chr9.4M.ont.sim.read_groups.tsv",
                 "chr9.4M.Illumina.bam", "chr9.4M.Illumina.bam.bai"]
        for n in names: shutil.copy(os.path.join(src, n), os.path.join(dest, n))
        return dict(bam=os.path.join(dest, names[0]), fasta=os.path.join(dest, names[2]), gtf=os.path.join(dest, names[3]), groups=os.path.join(dest, names[4]),
                    illumina=os.path.join(dest, names[5]))
    raise ValueError(which)

def ensure_reference_index(path):
    """Build <reference>.fai (and .gzi) once, under a lock, before any run uses the reference.  pyfaidx writes the index next to the
    FASTA IN PLACE; several harness runs started in parallel on one scratch copy would otherwise race on it (that race is the
    recorded finding C20:shared-reference-index and must not make OTHER checks flaky)."""
    import fcntl
    if not path or not os.path.exists(path): return
    need = [path + ".fai"] + ([path + ".gzi"] if path.endswith(".gz") else [])
    if all(os.path.exists(x) and os.path.getmtime(x) >= os.path.getmtime(path) for x in need): return
    try:
        with open(path + ".iqv_lock", "w") as lk:
            fcntl.flock(lk, fcntl.LOCK_EX)
            if not all(os.path.exists(x) and os.path.getmtime(x) >= os.path.getmtime(path) for x in need):
                import pyfaidx
                pyfaidx.Fasta(path).close()
    except Exception:
        pass            # not indexable here (e.g. plain gzip): IsoQuant deals with it itself

def run_isoquant(outdir, args, home=None, hashseed="0", env_extra=None, timeout=1800, wrapper=None, repo=None, preindex=True):
    """returns (rc, log_text).  args: list of CLI arguments (without -o)."""
    repo = repo or lib.REPO
    if preindex:
        for i, a in enumerate(args[:-1]):
            if a in ("--reference", "-r"): ensure_reference_index(args[i + 1])
    home = home or os.path.join(os.path.dirname(outdir.rstrip("/")), "home_" + os.path.basename(outdir.rstrip("/")))
    os.makedirs(home, exist_ok=True)
    env = dict(os.environ)
    env.update(HOME=home, PYTHONPATH=repo + os.pathsep + os.path.join(lib.VERIF, "harness"), PYTHONHASHSEED=str(hashseed), PYTHONDONTWRITEBYTECODE="1",
               OMP_NUM_THREADS="1", OPENBLAS_NUM_THREADS="1")
    if env_extra: env.update(env_extra)
    cmd = [lib.PY] + ([wrapper] if wrapper else [os.path.join(repo, "isoquant.py")]) + ["-o", outdir] + list(args)
    p = subprocess.run(cmd, stdout=subprocess.PIPE, stderr=subprocess.STDOUT, text=True, timeout=timeout, env=env, cwd=os.path.dirname(outdir.rstrip("/")))
    return p.returncode, p.stdout

# ------------------------------------------------------------------ parsers
def opn(path):
    return gzip.open(path, "rt") if path.endswith(".gz") else open(path)

def find(outdir, prefix, suffix):
    for cand in (suffix, suffix + ".gz"):
        p = os.path.join(outdir, prefix, prefix + "." + cand)
        if os.path.exists(p): return p
    return None

def parse_ranges(s):
    if s in (".", ""): return []
    return [tuple(map(int, x.split("-"))) for x in s.split(",")]

def read_assignments(path):
    """list of dicts per line of read_assignments.tsv"""
    out = []
    for l in opn(path):
        if l.startswith("#"): continue
        v = l.rstrip("\n").split("\t")
        d = dict(read_id=v[0], chr=v[1], strand=v[2], isoform_id=v[3], gene_id=v[4], assignment_type=v[5], assignment_events=v[6],
                 exons=parse_ranges(v[7]), additional_info=v[8] if len(v) > 8 else "")
        d["info"] = dict(x.strip().split("=", 1) for x in d["additional_info"].split(";") if "=" in x)
        out.append(d)
    return out

def read_bed(path):
    out = []
    for l in opn(path):
        if l.startswith("#") or not l.strip(): continue
        v = l.rstrip("\n").split("\t")
        s = int(v[1]); sizes = [int(x) for x in v[10].rstrip(",").split(",")]; starts = [int(x) for x in v[11].rstrip(",").split(",")]
        out.append(dict(chr=v[0], start=s, end=int(v[2]), name=v[3], strand=v[5], thick=(int(v[6]), int(v[7])), nblocks=int(v[9]), sizes=sizes, starts=starts,
                        exons=[(s + a + 1, s + a + b) for a, b in zip(starts, sizes)], raw=v))
    return out

def read_gtf(path):
    """returns (transcripts, genes, lines): transcripts[tid] = dict(chr,strand,gene,exons(sorted),attrs, line=(start,end) or None, exon_ids), genes[gid] = list of (chr,start,end,strand)"""
    tr = collections.OrderedDict(); genes = collections.OrderedDict(); n_tr_lines = collections.Counter()
    for l in opn(path):
        if l.startswith("#") or not l.strip(): continue
        v = l.rstrip("\n").split("\t")
        a = dict(re.findall(r'(\S+) "([^"]*)"', v[8]))
        if v[2] == "gene":
            genes.setdefault(a["gene_id"], []).append((v[0], int(v[3]), int(v[4]), v[6], a))
        elif v[2] in ("transcript", "mRNA"):
            t = tr.setdefault(a["transcript_id"], dict(chr=v[0], strand=v[6], gene=a.get("gene_id"), exons=[], exon_ids=[], attrs=a, line=None, exon_strands=set()))
            t["line"] = (int(v[3]), int(v[4])); t["attrs"] = a; n_tr_lines[a["transcript_id"]] += 1; t["chr"] = v[0]; t["strand"] = v[6]; t["gene"] = a.get("gene_id")
        elif v[2] == "exon":
            t = tr.setdefault(a["transcript_id"], dict(chr=v[0], strand=v[6], gene=a.get("gene_id"), exons=[], exon_ids=[], attrs=a, line=None, exon_strands=set()))
            t["exons"].append((int(v[3]), int(v[4]))); t["exon_ids"].append(a.get("exon_id")); t["exon_strands"].add(v[6])
    for tid, t in tr.items():
        t["printed_order"] = list(t["exons"])
        order = sorted(range(len(t["exons"])), key=lambda i: t["exons"][i])
        t["exon_ids"] = [t["exon_ids"][i] for i in order]; t["exons"] = [t["exons"][i] for i in order]
        t["introns"] = tuple((a[1] + 1, b[0] - 1) for a, b in zip(t["exons"], t["exons"][1:]))
        t["n_lines"] = n_tr_lines[tid]
    return tr, genes

def read_counts(path):
    """simple 2+ column tables: returns (header, {feature: [values]}); '__' lines included"""
    hdr = None; tab = collections.OrderedDict()
    for l in opn(path):
        v = l.rstrip("\n").split("\t")
        if l.startswith("#"):
            hdr = v; continue
        tab[v[0]] = [float(x) for x in v[1:]]
    return hdr, tab

def read_linear(path):
    """linear grouped table: feature, group, value"""
    out = []
    for l in opn(path):
        if l.startswith("#"): continue
        v = l.rstrip("\n").split("\t")
        out.append((v[0], v[1], float(v[2])))
    return out

def fasta_lengths(path):
    L = {}; name = None
    for l in opn(path):
        if l.startswith(">"): name = l[1:].split()[0]; L[name] = 0
        else: L[name] += len(l.strip())
    return L

def read_fasta(path):
    S = {}; name = None; buf = []
    for l in opn(path):
        if l.startswith(">"):
            if name: S[name] = "".join(buf)
            name = l[1:].split()[0]; buf = []
        else: buf.append(l.strip())
    if name: S[name] = "".join(buf)
    return S

def output_files(outdir, prefix):
    d = os.path.join(outdir, prefix)
    return sorted(f for f in os.listdir(d) if os.path.isfile(os.path.join(d, f)))

def file_bytes_no_header(path):
    """content with the command-line header lines removed (lines starting with '# ' that mention the command) - used by byte comparisons"""
    data = opn(path).read() if path.endswith(".gz") else open(path, errors="replace").read()
    return data
