#!/usr/bin/env python3
"""C04 trace wrapper: runs the unmodified isoquant.py of $VERIF_REPO while logging

  * every mutation of the state of IntronCollector / IntronGraph: the three containers of the collector (clustered_introns,
    intron_correction_map, discarded_introns) and the two edge dictionaries of the graph are replaced by logging subclasses, and the
    mutator methods (cluster_introns, add_substitute, discard, simplify_correction_map, add_edge, collapse_vertex) are bracketed, so that
    a mutation is logged either as the abstract step of the method that performed it or - when it happens outside every known
    mutator - as a raw step which the abstract system rejects;
  * snapshots of (vertices, substitution map, discarded set, intron->intron edges) at the phase boundaries of IntronGraph.__init__;
  * the read introns collected (corrected introns and the multimapper flag of every read of the region);
  * for every full-length path considered by construct_fl_isoforms: the inputs of the decision sequence (count, polyA/polyT,
    assigner verdict, membership in known_isoforms_in_graph, canonical-site counts, gene votes) and what was emitted;
  * the model store (save_assigned_read / delete_from_storage / assign_reads_to_models) and the final read->model table.

Active only under ABLAB_ISOQUANT_VERIF=1; nothing in the repository is touched and no behaviour is changed (logging containers behave
like the originals).  One JSON object per processed region goes to $C04_TRACE.<pid> (one file per process)."""
import os, sys, json, runpy, copy
from collections import defaultdict
from functools import cmp_to_key

REPO = os.environ.get("VERIF_REPO", "/repo")
if os.environ.get("ABLAB_ISOQUANT_VERIF") != "1":
    sys.stderr.write("c04_wrapper: ABLAB_ISOQUANT_VERIF=1 is required\n"); sys.exit(2)
sys.path.insert(0, REPO)
TRACE = os.environ.get("C04_TRACE")
_fh = {}

def _out():
    pid = os.getpid()
    if pid not in _fh: _fh[pid] = open("%s.%d" % (TRACE, pid), "a")
    return _fh[pid]

def _iv(v): return [int(v[0]), int(v[1])]
def _ivs(l): return [_iv(v) for v in l]


class Rec:
    """per-graph recorder: list of abstract steps + bracket stack"""
    def __init__(self):
        self.ops = []; self.stack = []; self.raw = []
    def top(self): return self.stack[-1] if self.stack else None
    def event(self, kind, *a):
        """a container mutation: attributed to the innermost open mutator, or logged as a raw step"""
        t = self.top()
        if t is None: self.ops.append(["Touch", a[0]] if kind == "vtouch" else ["Raw", kind] + list(a))     # vtouch: clustered_introns[i] read for a missing key
        elif t == "cluster":
            if kind == "vset" and not a[2]: self.ops.append(["AddVertex", a[0]])
            elif kind == "vset": pass                                            # count update of an existing vertex
            elif kind == "mset": self.ops.append(["ClusterSubst", a[0], a[1]])
            elif kind == "dadd": self.ops.append(["ClusterDiscard", a[0]])
            else: self.ops.append(["Raw", kind] + list(a))
        else: self.raw.append([t, kind] + list(a))                               # inside add_substitute / discard / ...: effects checked by snapshots


class VDict(defaultdict):
    """clustered_introns"""
    def __init__(self, rec):
        defaultdict.__init__(self, int); self._rec = rec
    def __setitem__(self, k, v):
        self._rec.event("vset", _iv(k), int(v), k in self); dict.__setitem__(self, k, v)
    def __delitem__(self, k):
        self._rec.event("vdel", _iv(k)); dict.__delitem__(self, k)
    def __missing__(self, k):
        self._rec.event("vtouch", _iv(k)); dict.__setitem__(self, k, 0); return 0
    def pop(self, *a): self._rec.event("vother", "pop"); return dict.pop(self, *a)
    def clear(self): self._rec.event("vother", "clear"); return dict.clear(self)
    def update(self, *a, **k): self._rec.event("vother", "update"); return dict.update(self, *a, **k)
    def setdefault(self, *a): self._rec.event("vother", "setdefault"); return dict.setdefault(self, *a)
    def popitem(self): self._rec.event("vother", "popitem"); return dict.popitem(self)
    def __reduce__(self): return (dict, (dict(self),))

class MDict(dict):
    """intron_correction_map"""
    def __init__(self, rec):
        dict.__init__(self); self._rec = rec
    def __setitem__(self, k, v):
        self._rec.event("mset", _iv(k), _iv(v)); dict.__setitem__(self, k, v)
    def __delitem__(self, k):
        self._rec.event("mdel", _iv(k)); dict.__delitem__(self, k)
    def pop(self, *a): self._rec.event("mother", "pop"); return dict.pop(self, *a)
    def clear(self): self._rec.event("mother", "clear"); return dict.clear(self)
    def update(self, *a, **k): self._rec.event("mother", "update"); return dict.update(self, *a, **k)
    def setdefault(self, *a): self._rec.event("mother", "setdefault"); return dict.setdefault(self, *a)
    def popitem(self): self._rec.event("mother", "popitem"); return dict.popitem(self)

class DSet(set):
    """discarded_introns"""
    def __init__(self, rec):
        set.__init__(self); self._rec = rec
    def add(self, k):
        self._rec.event("dadd", _iv(k)); set.add(self, k)
    def _other(name):
        def f(self, *a):
            self._rec.event("dother", name); return getattr(set, name)(self, *a)
        return f
    for _n in ("remove", "discard", "pop", "clear", "update", "difference_update", "intersection_update", "symmetric_difference_update", "__ior__", "__iand__", "__isub__", "__ixor__"):
        locals()[_n] = _other(_n)
    del _n, _other

class EDict(defaultdict):
    """outgoing_edges / incoming_edges: the dictionary-level mutations (assignment of a fresh set, deletion of a key) are steps of their own;
    the sets inside are changed by add_edge / collapse_vertex / attach_transcpt_ends only, which is checked by the snapshots"""
    def __init__(self, rec, name):
        defaultdict.__init__(self, set); self._rec = rec; self._name = name
    def __setitem__(self, k, v):
        if self._name == "out":
            if len(v) == 0: self._rec.ops.append(["CutOut", _iv(k)])
            else: self._rec.ops.append(["Raw", "eset", _iv(k)])
        dict.__setitem__(self, k, v)
    def __delitem__(self, k):
        if self._name == "out": self._rec.ops.append(["DropOut", _iv(k)])
        dict.__delitem__(self, k)
    def __missing__(self, k):
        s = set(); dict.__setitem__(self, k, s); return s


def snapshot(graph):
    c = graph.intron_collector
    E = sorted([_iv(u), _iv(v)] for u, vs in graph.outgoing_edges.items() if u[0] >= 0 for v in vs if v[0] >= 0)
    return ["Snap", sorted(_iv(v) for v in c.clustered_introns.keys()), sorted([_iv(k), _iv(v)] for k, v in c.intron_correction_map.items()),
            sorted(_iv(v) for v in c.discarded_introns), E]


_INSTALLED = set()

def install_graph():
    """logging of IntronCollector / IntronGraph (also used in-process by the unit correspondences of harness/props/c04.py)"""
    if "graph" in _INSTALLED: return
    _INSTALLED.add("graph")
    from src import intron_graph as ig

    # ---------------------------------------------------------------- collector
    c_init = ig.IntronCollector.__init__
    def collector_init(self, gene_info, delta=0):
        c_init(self, gene_info, delta)
        rec = Rec(); object.__setattr__(self, "_c04", rec)
        self.clustered_introns = VDict(rec); self.intron_correction_map = MDict(rec); self.discarded_introns = DSet(rec)
    ig.IntronCollector.__init__ = collector_init

    def bracket(cls, name, tag, op=None, after=None):
        orig = getattr(cls, name)
        def f(self, *a, **k):
            rec = self._c04 if hasattr(self, "_c04") else self.intron_collector._c04
            outer = rec.top()
            if op is not None and outer in (None,) + op[1]: rec.ops.append([op[0]] + [_iv(x) for x in a[:op[2]]])
            rec.stack.append(tag)
            try: return orig(self, *a, **k)
            finally:
                rec.stack.pop()
                if after is not None and rec.top() is None: rec.ops.append(after(self))
        setattr(cls, name, f)
    # (op name, brackets inside which the call is still a step of its own, number of intron arguments)
    bracket(ig.IntronCollector, "cluster_introns", "cluster")
    bracket(ig.IntronCollector, "add_substitute", "add_substitute", op=("AddSubstitute", (), 2))
    bracket(ig.IntronCollector, "discard", "discard", op=("Discard", (), 1))
    bracket(ig.IntronCollector, "simplify_correction_map", "simplify_map", op=("SimplifyMap", (), 0))
    bracket(ig.IntronGraph, "add_edge", "add_edge", op=("AddEdge", (), 2))
    bracket(ig.IntronGraph, "collapse_vertex", "collapse", op=("Collapse", (), 2))
    # the local decisions: every call of collapse_vertex_set is logged with the counts it reads and what it returns (between the mutator steps)
    orig_cvs = ig.IntronGraph.collapse_vertex_set
    def collapse_vertex_set(self, vertex_set):
        rec = self.intron_collector._c04
        fr = sys._getframe(1); caller = fr.f_code.co_name; loc = fr.f_locals
        vs = sorted(vertex_set); counts = [int(dict.get(self.intron_collector.clustered_introns, v, 0)) for v in vs]
        res = orig_cvs(self, vertex_set)
        if rec.top() is None:
            items = [[_iv(k), _iv(v)] for k, v in res.items()]
            if caller == "remove_isolates": rec.ops.append(["Iso", _ivs(vs), counts, items])
            elif caller == "clean_tips_and_bulges" and len(vs) > 1:
                rec.ops.append(["Cvs", "inc_introns" not in loc, _iv(loc["current_intron"]), _ivs(vs), counts, items])
            elif len(vs) > 1: rec.ops.append(["Raw", "cvs-from-" + caller])
        return res
    ig.IntronGraph.collapse_vertex_set = collapse_vertex_set
    orig_simplify = ig.IntronGraph.simplify
    def simplify(self):
        r = orig_simplify(self)
        object.__setattr__(self, "_c04_counts", [[_iv(k), int(v)] for k, v in self.intron_collector.clustered_introns.items()])
        return r
    ig.IntronGraph.simplify = simplify
    for nm in ("construct", "clean_tips_and_bulges", "simplify", "attach_terminal_positions"):
        # phase boundaries: snapshot after the phase (the phase itself is not a mutator; mutations inside it that are not inside a mutator are raw steps)
        orig = getattr(ig.IntronGraph, nm)
        def mk(orig):
            def f(self, *a, **k):
                r = orig(self, *a, **k)
                self.intron_collector._c04.ops.append(snapshot(self))
                return r
            return f
        setattr(ig.IntronGraph, nm, mk(orig))
    orig_process = ig.IntronCollector.process
    def process(self, read_assignments, min_count):
        r = orig_process(self, read_assignments, min_count)
        # state after collection and clustering (no edges yet)
        self._c04.ops.append(["Snap", sorted(_iv(v) for v in self.clustered_introns.keys()), sorted([_iv(k), _iv(v)] for k, v in self.intron_correction_map.items()),
                              sorted(_iv(v) for v in self.discarded_introns), []])
        return r
    ig.IntronCollector.process = process

    # the edge dictionaries are created inside IntronGraph.__init__: intercept the attribute assignment
    def graph_setattr(self, name, value):
        if name in ("outgoing_edges", "incoming_edges") and not isinstance(value, EDict) and len(value) == 0 and hasattr(self, "_c04_pending"):
            value = EDict(self._c04_pending, "out" if name == "outgoing_edges" else "inc")
        object.__setattr__(self, name, value)
        if name == "intron_collector" and hasattr(value, "_c04"):
            # share one recorder between graph and collector (the edge dictionaries were created first)
            rec = self._c04_pending; value._c04.ops = rec.ops; value._c04.stack = rec.stack; value._c04.raw = rec.raw
    ig.IntronGraph.__setattr__ = graph_setattr
    g_init = ig.IntronGraph.__init__
    def graph_init(self, params, gene_info, read_assignments):
        object.__setattr__(self, "_c04_pending", Rec())
        reads = []; xreads = []
        for a in read_assignments:
            reads.append([bool(a.multimapper), _ivs(a.corrected_introns or [])])
            try:
                pi = a.polya_info
                xreads.append([bool(a.multimapper), _ivs(a.corrected_introns or []), int(a.corrected_exons[0][0]), int(a.corrected_exons[-1][1]),
                               bool(a.strand == '+' and (pi.external_polya_pos != -1 or pi.internal_polya_pos != -1)),
                               bool(a.strand == '-' and (pi.external_polyt_pos != -1 or pi.internal_polyt_pos != -1))])
            except Exception as e: xreads.append(["error", repr(e)])
        object.__setattr__(self, "_c04_reads", reads)
        g_init(self, params, gene_info, read_assignments)
        c = self.intron_collector
        # after clustering (before construct) a snapshot is taken by the `construct` hook only afterwards; that is enough: add_edge changes E only
        terminal = sorted([_iv(u), [int(v[0]), int(v[1])]] for u, vs in self.outgoing_edges.items() for v in vs if v[0] < 0) + \
                   sorted([_iv(u), [int(v[0]), int(v[1])]] for u, vs in self.incoming_edges.items() for v in vs if v[0] < 0)
        out_e = sorted([_iv(u), _iv(v)] for u, vs in self.outgoing_edges.items() if u[0] >= 0 for v in vs if v[0] >= 0)
        inc_e = sorted([_iv(v), _iv(u)] for v, us in self.incoming_edges.items() if v[0] >= 0 for u in us if u[0] >= 0)
        object.__setattr__(self, "_c04_graph", dict(reads=reads, xreads=xreads, out_edges=out_e, inc_edges=inc_e, ops=c._c04.ops, raw_inside=len(c._c04.raw), terminal=terminal,
                                                    known=sorted(_iv(i) for i in c.known_introns), delta=int(c.delta), min_count=int(params.min_novel_intron_count),
                                                    counts_after_simplify=getattr(self, "_c04_counts", None), counts_end=[[_iv(k), int(v)] for k, v in c.clustered_introns.items()],
                                                    gparams=dict(dist=int(params.graph_clustering_distance), ratio=repr(float(params.graph_clustering_ratio)), iso=int(params.min_novel_isolated_intron_abs))))
        # mutations after construction of the graph (e.g. defaultdict look-ups in the filters) go to a separate list
        late = Rec(); c._c04.ops = late.ops; c._c04.raw = late.raw; c._c04.stack = late.stack
        self._c04_pending.ops = late.ops
        object.__setattr__(self, "_c04_late", late)
    ig.IntronGraph.__init__ = graph_init


def install_constructor():
    if "constructor" in _INSTALLED: return
    _INSTALLED.add("constructor")
    from src import intron_graph as ig, graph_based_model_construction as gb
    from src.common import cmp
    from src.gene_info import TranscriptModelType
    from src.isoform_assignment import is_matching_assignment

    orig_fl = gb.GraphBasedModelConstructor.construct_fl_isoforms
    def construct_fl_isoforms(self):
        calls = []
        real = self.assigner.assign_to_isoform
        def assign(tid, profile):
            r = real(tid, profile)
            m = bool(is_matching_assignment(r))
            calls.append([tid, m, r.isoform_matches[0].assigned_transcript if m else None])
            return r
        self.assigner.assign_to_isoform = assign
        paths = sorted(self.path_storage.fl_paths, key=cmp_to_key(lambda x, y: cmp(x, y) if len(x) == len(y) else cmp(len(y), len(x))))
        before = len(self.transcript_model_storage)
        detected_before = set(gb.GraphBasedModelConstructor.detected_known_isoforms)
        try:
            orig_fl(self)
        finally:
            try: del self.assigner.assign_to_isoform
            except AttributeError: self.assigner.assign_to_isoform = real
        new = self.transcript_model_storage[before:]
        by_tid = {}
        for m in new: by_tid[m.transcript_id.split(".")[0] if m.transcript_type != TranscriptModelType.known else m.transcript_id] = m
        sd = copy.copy(self.strand_detector); sd.strand_dict = dict(self.strand_detector.strand_dict)
        decisions = []; k = 0; known_emitted = set()
        for p in paths:
            ip = p[1:-1]
            if not ip: continue
            if k >= len(calls): decisions.append(dict(error="assigner was called %d times for more paths" % len(calls))); break
            tid, matching, ref = calls[k]; k += 1
            fwd, rev = sd.count_canonical_sites(ip)
            votes = defaultdict(int)
            for i in ip:
                for g in self.intron_genes.get(i, ()): votes[g] += 1
            d = dict(path=[[int(p[0][0]), int(p[0][1])]] + _ivs(ip) + [[int(p[-1][0]), int(p[-1][1])]], count=int(self.path_storage.paths[p]), tid=tid, matching=matching, ref=ref,
                     ref_is_isoform=(ref in self.gene_info.all_isoforms_introns) if matching else None,
                     in_known=ip in self.known_isoforms_in_graph, fwd=int(fwd), rev=int(rev), votes=sorted(votes.items()),
                     intron_genes=[[_iv(i), sorted(self.intron_genes[i])] for i in sorted(set(ip)) if i in self.intron_genes],
                     n_read_groups=len(set(a.read_group for a in self.path_storage.paths_to_reads[p])), n_reads=len(self.path_storage.paths_to_reads[p]),
                     all_known=all(i in self.known_introns for i in ip),
                     read_introns=sorted(set(tuple((int(i[0]), int(i[1])) for i in a.corrected_introns) for a in self.path_storage.paths_to_reads[p])))
            m = by_tid.get(tid)
            if m is not None:
                d["out"] = dict(kind="novel", tid=m.transcript_id, strand=m.strand, gene=m.gene_id, type=m.transcript_type.name, exons=_ivs(m.exon_blocks), intron_path=_ivs(m.intron_path))
            elif matching and ref in by_tid and ref not in known_emitted and ref not in detected_before and d["count"] >= self.params.min_known_count:
                known_emitted.add(ref); d["out"] = dict(kind="known", tid=ref)
            else: d["out"] = None
            decisions.append(d)
        if k != len(calls): decisions.append(dict(error="assigner was called %d times, %d paths with introns" % (len(calls), k)))
        p_ = self.params
        self._c04_fl = dict(decisions=decisions, n_new=len(new), empty=bool(self.gene_info.empty()), gene_strands=dict(self.gene_info.gene_strands),
                            params=dict(min_novel_count=int(p_.min_novel_count), min_known_count=int(p_.min_known_count), require_monointronic_polya=bool(p_.require_monointronic_polya),
                                        report=p_.report_canonical_strategy.name, use_technical_replicas=bool(p_.use_technical_replicas),
                                        requires_polya_for_construction=bool(p_.requires_polya_for_construction)),
                            known_paths=sorted([_ivs(kp), iso] for kp, iso in self.known_isoforms_in_graph.items()),
                            ref_chains=sorted([t, _ivs(ins)] for t, ins in self.gene_info.all_isoforms_introns.items()),
                            fl_paths_with_introns=sum(1 for p in paths if p[1:-1]))
    gb.GraphBasedModelConstructor.construct_fl_isoforms = construct_fl_isoforms

    def store_ops(self):
        if not hasattr(self, "_c04_store"): self._c04_store = []
        return self._c04_store
    def storage_ids(self): return [[m.transcript_id, m.transcript_type != TranscriptModelType.known] for m in self.transcript_model_storage]
    orig_save = gb.GraphBasedModelConstructor.save_assigned_read
    def save_assigned_read(self, read_assignment, transcript_id):
        tp = [m.transcript_type != TranscriptModelType.known for m in self.transcript_model_storage if m.transcript_id == transcript_id]
        store_ops(self).append(["Save", transcript_id, read_assignment.read_id, tp[0] if tp else None])
        return orig_save(self, read_assignment, transcript_id)
    gb.GraphBasedModelConstructor.save_assigned_read = save_assigned_read
    orig_del = gb.GraphBasedModelConstructor.delete_from_storage
    def delete_from_storage(self, transcript_id):
        store_ops(self).append(["Del", transcript_id])
        return orig_del(self, transcript_id)
    gb.GraphBasedModelConstructor.delete_from_storage = delete_from_storage
    orig_assign = gb.GraphBasedModelConstructor.assign_reads_to_models
    def assign_reads_to_models(self, read_assignments):
        before = {t: len(l) for t, l in self.transcript_read_ids.items()}
        cnt_before = dict(self.internal_counter)
        store_ops(self).append(["Storage", storage_ids(self)])
        r = orig_assign(self, read_assignments)
        per_read = defaultdict(list); order = []
        for t, l in self.transcript_read_ids.items():
            for a in l[before.get(t, 0):]:
                if a.read_id not in per_read: order.append(a.read_id)
                per_read[a.read_id].append(t)
        for rid in order: store_ops(self).append(["Assign", rid, per_read[rid], [int(self.internal_counter[t] - cnt_before.get(t, 0)) for t in per_read[rid]]])
        return r
    gb.GraphBasedModelConstructor.assign_reads_to_models = assign_reads_to_models
    for nm in ("pre_filter_transcripts", "filter_transcripts"):
        orig = getattr(gb.GraphBasedModelConstructor, nm)
        def mk(orig, nm):
            def f(self):
                store_ops(self).append(["Begin", nm, storage_ids(self)])
                r = orig(self)
                store_ops(self).append(["End", nm, storage_ids(self), {t: int(v) for t, v in self.internal_counter.items()}])
                return r
            return f
        setattr(gb.GraphBasedModelConstructor, nm, mk(orig, nm))

    def duplicate_oracle(self):
        """for every ordered pair of reported novel models of more than two exons with one strand and one intron chain: the verdict
        is_matching_assignment(assigner.assign_to_isoform(m ...)) against GeneInfo.from_models([model]) computed exactly the way
        detect_similar_isoforms does (same classes of the tree under test, same polyA info) - whether the pair WOULD be collapsed
        when compared.  Pure: nothing of the constructor is changed."""
        from src.polya_finder import PolyAInfo
        out = []
        novel = [m for m in self.transcript_model_storage if m.transcript_type != TranscriptModelType.known and len(m.exon_blocks) > 2]
        def chain(m): return tuple((a[1] + 1, b[0] - 1) for a, b in zip(m.exon_blocks, m.exon_blocks[1:]))
        for model in novel:
            for m in novel:
                if m is model or m.strand != model.strand or chain(m) != chain(model): continue
                try:
                    gi = gb.GeneInfo.from_models([model], self.params.delta)
                    assigner = gb.LongReadAssigner(gi, self.params)
                    pc = gb.CombinedProfileConstructor(gi, self.params)
                    if m.intron_path and m.intron_path[0][0] == ig.VERTEX_polyt: polya_info = PolyAInfo(-1, m.intron_path[0][1], -1, -1)
                    elif m.intron_path and m.intron_path[-1][0] == ig.VERTEX_polya: polya_info = PolyAInfo(m.intron_path[-1][1], -1, -1, -1)
                    else: polya_info = PolyAInfo(-1, -1, -1, -1)
                    a = assigner.assign_to_isoform(m.transcript_id, pc.construct_profiles(m.exon_blocks, polya_info, []))
                    out.append([m.transcript_id, model.transcript_id, bool(is_matching_assignment(a))])
                except Exception as e:
                    out.append([m.transcript_id, model.transcript_id, None, repr(e)])
        return out

    orig_proc = gb.GraphBasedModelConstructor.process
    SEQ = [0]
    def process(self, read_assignment_storage):
        SEQ[0] += 1
        rec = dict(kind="region", seq=SEQ[0], chr=self.gene_info.chr_id, region=[int(self.gene_info.start), int(self.gene_info.end)])
        try:
            r = orig_proc(self, read_assignment_storage)
            g = self.intron_graph
            rec.update(graph=g._c04_graph, late_ops=g._c04_late.ops, fl=getattr(self, "_c04_fl", None), store=getattr(self, "_c04_store", []),
                       final_storage=storage_ids(self), final_models=[dict(tid=m.transcript_id, novel=m.transcript_type != TranscriptModelType.known, strand=m.strand, gene=m.gene_id,
                                                                           exons=_ivs(m.exon_blocks), intron_path=_ivs([v for v in m.intron_path if v[0] >= 0])) for m in self.transcript_model_storage],
                       r2t=[[t, [a.read_id for a in l]] for t, l in self.transcript_read_ids.items()],
                       unassigned=[rid for rid, c in self.read_assignment_counts.items() if c == 0],
                       counter={t: int(v) for t, v in self.internal_counter.items()},
                       final_vertices=sorted(_iv(v) for v in g.intron_collector.clustered_introns.keys()),
                       dup_oracle=duplicate_oracle(self),
                       paths=[[[[int(v[0]), int(v[1])] for v in p], int(n)] for p, n in self.path_storage.paths.items()],
                       fl_paths=[[[int(v[0]), int(v[1])] for v in p] for p in self.path_storage.fl_paths],
                       pparams=dict(delta=int(self.params.delta), apa_delta=int(self.params.apa_delta), requires_polya=bool(self.params.requires_polya_for_construction)))
            return r
        except BaseException as e:
            rec["raised"] = type(e).__name__
            raise
        finally:
            f = _out(); f.write(json.dumps(rec) + "\n"); f.flush()
    gb.GraphBasedModelConstructor.process = process


def install():
    install_graph(); install_constructor()


if __name__ == "__main__":
    install()
    script = os.path.join(REPO, "isoquant.py")
    sys.argv = [script] + sys.argv[1:]
    runpy.run_path(script, run_name="__main__")
