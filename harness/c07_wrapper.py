#!/usr/bin/env python3
"""C07 wrapper: runs the unmodified isoquant.py of $VERIF_REPO while numbering every file-system mutation of the run
(main process and pool workers share one counter) and, on request, killing the whole run at a chosen mutation.

Mutation = builtins.open in a mode that writes ('w', 'a', 'x', '+'; gzip.open for writing arrives here through
gzip.GzipFile), os.remove/os.unlink, os.rename/os.replace, os.mkdir (only when the directory does not exist yet; os.makedirs
arrives here), shutil.move/copy/copyfile/copy2/rmtree.  shutil.copyfileobj between two open handles is no mutation of its own.

Environment (wrapper only; nothing in the repository is touched; active only under ABLAB_ISOQUANT_VERIF=1):
  C07_TRACE        path of the shared trace: one JSON object per line {n, pid, main, op, mode, path, dst, open}
                   (written under an exclusive flock, so the line order is the global order of the mutations);
                   `open` = the paths this process has opened for writing and not closed yet (weak references to the file
                   objects, nothing is wrapped): exactly the files that lose buffered data if the run dies here
  C07_CRASH_AT     k > 0: kill the whole process group (SIGKILL: no handler, no flush, no destructor runs) at the k-th mutation
  C07_CRASH_WHEN   'before' (default): before the k-th mutation is executed;  'after': immediately after it returned
                   (files that are still open lose their unflushed buffers in both cases)
  C07_GLOB_ORDER   order in which glob.glob returns its matches (the clean-up removes files in this order; the OS leaves it
                   unspecified): 'sorted' (default), 'reverse', 'fs' (whatever the file system says), or 'locks_last'
                   (names ending in _lock/_collected/_processed after all others - the least favourable order)
  C07_DB_KILL      kill the run at a PHASE of the GTF -> sqlite conversion (gffutils writes through sqlite, which the mutation counter
                   cannot see): 'before' (entry of gffutils' _DBCreator.create), 'tables' (tables created, empty), 'populated' (features
                   inserted), 'relations' (relations inserted, before _finalize writes meta data and indices), 'after' (create returned)
The wrapper makes itself a session leader so that the kill reaches the pool workers and nothing else."""
import os, sys, json, runpy, builtins, fcntl, signal, shutil, weakref

REPO = os.environ.get("VERIF_REPO", "/repo")
if os.environ.get("ABLAB_ISOQUANT_VERIF") != "1":
    sys.stderr.write("c07_wrapper: ABLAB_ISOQUANT_VERIF=1 is required\n"); sys.exit(2)
sys.path.insert(0, REPO)
TRACE = os.environ["C07_TRACE"]
CRASH_AT = int(os.environ.get("C07_CRASH_AT", "0") or 0)
CRASH_WHEN = os.environ.get("C07_CRASH_WHEN", "before")
MAIN_PID = os.getpid()

_open, _remove, _unlink, _rename, _replace, _mkdir = builtins.open, os.remove, os.unlink, os.rename, os.replace, os.mkdir
_move, _copy, _copy2, _copyfile, _rmtree = shutil.move, shutil.copy, shutil.copy2, shutil.copyfile, shutil.rmtree
_handles = []           # (weakref to file object, path, pid that opened it)
_busy = [False]          # re-entrancy guard: shutil.move -> os.rename etc. count once


def _die():
    try: os.killpg(os.getpgrp(), signal.SIGKILL)
    finally: os._exit(137)


def _tick(op, path, mode="", dst=""):
    """number this mutation, log it; returns its number (the caller executes the operation afterwards)"""
    try: path = os.path.abspath(os.fspath(path))
    except TypeError: path = repr(path)
    fd = os.open(TRACE, os.O_RDWR | os.O_CREAT | os.O_APPEND, 0o644)
    try:
        fcntl.flock(fd, fcntl.LOCK_EX)
        n = 0
        cfd = os.open(TRACE + ".n", os.O_RDWR | os.O_CREAT, 0o644)
        try:
            s = os.read(cfd, 32)
            n = (int(s) if s.strip() else 0) + 1
            if CRASH_AT and n == CRASH_AT and CRASH_WHEN == "before":
                _die()
            os.lseek(cfd, 0, 0); os.write(cfd, b"%-31d" % n)
        finally:
            os.close(cfd)
        rec = dict(n=n, pid=os.getpid(), main=os.getpid() == MAIN_PID, op=op, mode=mode, path=path, open=_open_now())
        if dst: rec["dst"] = os.path.abspath(os.fspath(dst))
        os.write(fd, (json.dumps(rec) + "\n").encode())
    finally:
        os.close(fd)             # releases the flock
    return n


def _open_now():
    me = os.getpid(); out = []; keep = []
    for ref, path, pid in _handles:
        f = ref()
        if f is None or pid != me: continue
        if f.closed: continue
        keep.append((ref, path, pid)); out.append(path)
    _handles[:] = keep
    return out


def _after(n):
    if CRASH_AT and n == CRASH_AT and CRASH_WHEN == "after":
        _die()


def _wrap(op, real, two=False):
    def f(*a, **k):
        if _busy[0]: return real(*a, **k)
        _busy[0] = True
        try:
            n = _tick(op, a[0] if a else k.get("src", k.get("path")), dst=(a[1] if two and len(a) > 1 else k.get("dst", "")))
            r = real(*a, **k)
        finally:
            _busy[0] = False
        _after(n)
        return r
    f.__name__ = getattr(real, "__name__", op)
    return f


def v_open(file, mode="r", *a, **k):
    if _busy[0] or isinstance(file, int) or not any(c in mode for c in "wax+"):
        return _open(file, mode, *a, **k)
    _busy[0] = True
    try:
        n = _tick("open", file, mode="w" if "w" in mode else "a" if "a" in mode else "x" if "x" in mode else "+")
        r = _open(file, mode, *a, **k)
        try: _handles.append((weakref.ref(r), os.path.abspath(os.fspath(file)), os.getpid()))
        except TypeError: pass
    finally:
        _busy[0] = False
    _after(n)
    return r


def v_mkdir(path, *a, **k):
    if _busy[0] or os.path.isdir(path): return _mkdir(path, *a, **k)
    _busy[0] = True
    try:
        n = _tick("mkdir", path)
        r = _mkdir(path, *a, **k)
    finally:
        _busy[0] = False
    _after(n)
    return r


GLOB_ORDER = os.environ.get("C07_GLOB_ORDER", "sorted")
def _is_lock(p): return p.endswith(("_lock", "_collected", "_processed"))


def install():
    import io, glob
    _glob = glob.glob
    def v_glob(*a, **k):
        r = _glob(*a, **k)
        if GLOB_ORDER == "sorted": return sorted(r)
        if GLOB_ORDER == "reverse": return sorted(r, reverse=True)
        if GLOB_ORDER == "locks_last": return sorted(r, key=lambda p: (_is_lock(p), p))
        return r
    glob.glob = v_glob
    builtins.open = v_open; io.open = v_open
    os.remove = _wrap("remove", _remove); os.unlink = _wrap("remove", _unlink)
    os.rename = _wrap("rename", _rename, True); os.replace = _wrap("rename", _replace, True)
    os.mkdir = v_mkdir
    shutil.move = _wrap("move", _move, True); shutil.copy = _wrap("copy", _copy, True); shutil.copy2 = _wrap("copy", _copy2, True)
    shutil.copyfile = _wrap("copy", _copyfile, True); shutil.rmtree = _wrap("rmtree", _rmtree)


def install_db_kill(phase):
    from gffutils import create as gc
    def after(cls, name, ph):
        real = getattr(cls, name)
        if name not in cls.__dict__: return
        def f(self, *a, **k):
            r = real(self, *a, **k)
            if phase == ph:
                try: self.conn.commit()
                except Exception: pass
                _die()
            return r
        setattr(cls, name, f)
    real_create = gc._DBCreator.create
    def create(self, *a, **k):
        if phase == "before": _die()
        r = real_create(self, *a, **k)
        if phase == "after": _die()
        return r
    gc._DBCreator.create = create
    for cls in (gc._DBCreator, gc._GFFDBCreator, gc._GTFDBCreator):
        after(cls, "_init_tables", "tables"); after(cls, "_populate_from_lines", "populated"); after(cls, "_update_relations", "relations")


if __name__ == "__main__":
    try: os.setsid()
    except OSError: pass
    install()
    if os.environ.get("C07_DB_KILL"): install_db_kill(os.environ["C07_DB_KILL"])
    script = os.path.join(REPO, "isoquant.py")
    sys.argv = [script] + sys.argv[1:]
    runpy.run_path(script, run_name="__main__")
