#!/usr/bin/env python3
import sys, os, argparse, importlib, json, traceback
sys.path.insert(0, os.path.dirname(os.path.abspath(__file__)))
import lib

def main():
    ap = argparse.ArgumentParser()
    ap.add_argument("pid"); ap.add_argument("--tier", default=os.environ.get("VERIF_TIER", "quick")); ap.add_argument("--replay")
    a = ap.parse_args()
    tier = os.environ.get("VERIF_TIER") or a.tier
    seed = int(os.environ.get("VERIF_SEED", "1"))
    ctx = lib.Ctx(a.pid, tier, seed)
    mod = importlib.import_module("props." + a.pid.lower())
    try:
        if a.replay:
            ctx.replay = json.load(open(a.replay))
            print("replaying", a.replay, "->", json.dumps(ctx.replay.get("replay"), default=str)[:2000])
            if hasattr(mod, "replay"):
                mod.replay(ctx, ctx.replay)
            else:
                mod.run(ctx)
        else:
            mod.run(ctx)
    except Exception:
        ctx.broken("harness", "exception in the check itself:\n" + traceback.format_exc()[-3000:])
    sys.exit(ctx.finish())
main()
