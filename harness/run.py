#!/usr/bin/env python3
import sys, os, argparse, importlib, json, traceback
sys.path.insert(0, os.path.dirname(os.path.abspath(__file__)))
import lib

def main():
    ap = argparse.ArgumentParser()
    ap.add_argument("pid"); ap.add_argument("--tier", default=os.environ.get("VERIF_TIER", "quick")); ap.add_argument("--replay")
    a = ap.parse_args()
    tier = os.environ.get("VERIF_TIER") or a.tier
    seed = int(os.environ.get("VERIF_SEED", "1"))
    ctx = lib.Ctx(a.pid, tier, seed)
    # watchdog: a check must never hang (a changed implementation may loop forever outside the guarded calls): past the deadline
    # the stacks are dumped, the check is reported as no longer checking, evidence is written and the process exits 1
    deadline = float(os.environ.get("VERIF_DEADLINE", "2700" if tier == "quick" else "21600"))
    def watchdog():
        import faulthandler, io, threading, time as _t
        _t.sleep(deadline)
        frames = sys._current_frames(); main_id = threading.main_thread().ident
        stack = "".join(traceback.format_stack(frames[main_id])[-12:]) if main_id in frames else "?"
        ctx.broken("harness-deadline", "the check did not finish within %.0f s (an implementation call outside the guarded ones does not terminate, or the machine is overloaded); main thread was at:\n%s" % (deadline, stack[-2500:]))
        try: rc = ctx.finish()
        except Exception: rc = 1
        sys.stdout.flush(); os._exit(rc or 1)
    import threading
    threading.Thread(target=watchdog, daemon=True).start()
    mod = importlib.import_module("props." + a.pid.lower())
    try:
        if a.replay:
            ctx.replay = json.load(open(a.replay))
            print("replaying", a.replay, "->", json.dumps(ctx.replay.get("replay"), default=str)[:2000])
            if hasattr(mod, "replay"):
                mod.replay(ctx, ctx.replay)
            else:
                mod.run(ctx)
        else:
            mod.run(ctx)
    except Exception:
        ctx.broken("harness", "exception in the check itself:\n" + traceback.format_exc()[-3000:])
    sys.exit(ctx.finish())
main()
