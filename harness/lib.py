"""Shared machinery of the IsoQuant verification checks.

A check is a function `run(ctx)` in harness/props/cXX.py.  The context offers:
  ctx.regen()                      regenerate coq/gen/*.v from /repo (translator, fail-closed)
  ctx.build()                      full incremental `make` of the Coq development (under a file lock)
  ctx.obligations(prop_file)       recompile props/Cxx.v into scratch, collect theorem names + Print Assumptions
  ctx.corr(name, preamble, cases)  correspondence: evaluate `check`/`prop` on every case inside Coq (vm_compute)
  ctx.violation(...) / ctx.broken(...)   record a concrete failing input / an obligation that no longer checks
  ctx.finish()                     write evidence, print VIOLATION / KNOWN-FINDING lines, return exit status
"""
import os, sys, json, time, subprocess, tempfile, shutil, re, hashlib, fcntl, random
from concurrent.futures import ThreadPoolExecutor

VERIF = os.path.dirname(os.path.dirname(os.path.abspath(__file__)))
REPO = os.environ.get("VERIF_REPO", "/repo")
COQ = os.path.join(VERIF, "coq")
PY = "/venv/bin/python"
NPROC = int(os.environ.get("VERIF_JOBS", "16"))
COQC_TIMEOUT = 400


def sh(cmd, timeout=1200, cwd=None, env=None):
    p = subprocess.run(cmd, stdout=subprocess.PIPE, stderr=subprocess.STDOUT, text=True, timeout=timeout, cwd=cwd, env=env)
    return p.returncode, p.stdout


import signal
class ImplTimeout(Exception):
    pass
def with_timeout(f, *a, seconds=5.0):
    """run an implementation call under a wall-clock limit (a mutated loop may not terminate)"""
    def h(sig, frm): raise ImplTimeout()
    old = signal.signal(signal.SIGALRM, h); signal.setitimer(signal.ITIMER_REAL, seconds)
    try:
        return f(*a)
    finally:
        signal.setitimer(signal.ITIMER_REAL, 0); signal.signal(signal.SIGALRM, old)


class Lock:
    def __init__(self, name):
        self.path = os.path.join(COQ, "." + name + ".lock")
    def __enter__(self):
        self.f = open(self.path, "w")
        fcntl.flock(self.f, fcntl.LOCK_EX)
    def __exit__(self, *a):
        fcntl.flock(self.f, fcntl.LOCK_UN); self.f.close()


# ---------------------------------------------------------------- Coq literal printers
def cz(n):
    n = int(n)
    return "%d" % n if n >= 0 else "(%d)" % n
def cn(n):
    assert n >= 0
    return "%d" % n
def cnat(n):
    assert 0 <= n < 5000, "nat literal too large"
    return "%d%%nat" % n
def cbool(b): return "true" if b else "false"
def civ(p): return "(%s,%s)" % (cz(p[0]), cz(p[1]))
def clist(items, f=str): return "[" + "; ".join(f(x) for x in items) + "]"
def civs(l): return clist(l, civ)
def czs(l): return clist(l, cz)
def copt(x, f=str): return "None" if x is None else "(Some %s)" % f(x)
def cpair(a, b): return "(%s, %s)" % (a, b)
def cstr_bytes(s):
    """a Python str/bytes as list of byte values (N)"""
    b = s.encode("utf-8") if isinstance(s, str) else bytes(s)
    return "[" + "; ".join("%d" % x for x in b) + "]"


def known_findings():
    p = os.path.join(VERIF, "known_findings.json")
    if not os.path.exists(p): return {"findings": [], "fixed": []}
    return json.load(open(p))


class Ctx:
    def __init__(self, pid, tier, seed):
        self.pid, self.tier, self.seed = pid, tier, seed
        self.t0 = time.time()
        self.scratch = tempfile.mkdtemp(prefix="iqv_%s_" % pid)
        self.rnd = random.Random(seed)
        self.obl = []            # (name, ok:bool, note)
        self.assumptions = []    # Print Assumptions text
        self.violations = []     # dict(key, what, replay)
        self.brokens = []        # dict(name, detail)
        self.known_seen = []
        self.cov = dict(evaluations=0, distinct_nontrivial=0, samples=[], traces_validated_against_impl=0, correspondences={}, pipeline_runs=0)
        self.rules = []
        self.trusted = ["Coq 8.16.1 kernel + vm_compute (no native_compute)", "tools/translate_*.py (fail-closed ast translators)",
                        "harness correspondence: Python adapters, Coq-literal printers, coqc vm_compute evaluation of check/prop"]
        self.assume = []
        self.checker_cmds = []
        self.src_hashes = {}
        self.notes = []
        self.exhaustive = None

    # ------------------------------------------------------------ translator + build
    def regen(self):
        with Lock("build"):
            rc, out = sh([PY, os.path.join(VERIF, "tools", "regen.py"), REPO, os.path.join(COQ, "gen")], timeout=300)
        self.checker_cmds.append("tools/regen.py %s coq/gen" % REPO)
        if rc != 0:
            self.broken("translator", "translator refused or failed: " + out[-1500:])
            return False
        try:
            self.src_hashes = json.loads(out.strip().splitlines()[-1])
        except Exception:
            pass
        return True

    def build(self, targets=None):
        """incremental make of the whole development (or given .vo targets); returns (ok, log)"""
        with Lock("build"):
            files = sorted(os.path.relpath(os.path.join(d, f), COQ) for sub in ("gen", ".", "props") for d in [os.path.join(COQ, sub)] if os.path.isdir(d)
                           for f in os.listdir(d) if f.endswith(".v") and not f.startswith("."))
            want = "-Q . IQ\n" + "\n".join(files) + "\n"
            cp = os.path.join(COQ, "_CoqProject")
            if not os.path.exists(cp) or open(cp).read() != want or not os.path.exists(os.path.join(COQ, "Makefile")):
                open(cp, "w").write(want)
                sh(["coq_makefile", "-f", "_CoqProject", "-o", "Makefile"], cwd=COQ)
            cmd = ["timeout", "1500", "make", "-j%d" % NPROC, "-k", "COQC=timeout 400 coqc"] + (targets or [])
            rc, out = sh(cmd, cwd=COQ, timeout=1600)
        self.checker_cmds.append("make -C coq -j%d %s" % (NPROC, " ".join(targets or [])))
        return rc == 0, out

    def prepare(self, prop_file):
        """regenerate gen/, rebuild, check the property theorems; a build failure elsewhere in the library is only noted"""
        self.regen()
        ok, log = self.build()
        if not ok: self.notes.append("make reported errors (only the dependencies of props/%s matter here): %s" % (prop_file, log[-400:]))
        return self.obligations(prop_file)

    def obligations(self, prop_file, deps_ok=True):
        """Compile props/<file> into scratch, list its theorems and their Print Assumptions output.
           Returns True iff all theorems were accepted."""
        src = os.path.join(COQ, "props", prop_file)
        text = open(src).read()
        names = re.findall(r"^(?:Theorem|Lemma|Corollary|Example|Fact)\s+([A-Za-z0-9_']+)", text, re.M)
        outvo = os.path.join(self.scratch, prop_file.replace(".v", ".vo"))
        cmd = ["timeout", str(COQC_TIMEOUT), "coqc", "-Q", COQ, "IQ", "-o", outvo, src]
        rc, out = sh(cmd, timeout=COQC_TIMEOUT + 30)
        self.checker_cmds.append("coqc -Q coq IQ coq/props/%s (after make of its dependencies)" % prop_file)
        if rc == 0:
            for n in names: self.obl.append((n, True, ""))
            # group the assumptions output
            blocks = re.findall(r"(Closed under the global context|Axioms:\n(?:.+\n?)+?(?=\n\S|\Z))", out)
            closed = out.count("Closed under the global context")
            axioms = [b for b in re.findall(r"Axioms:\n((?:[^\n]+\n?)+)", out)]
            self.assumptions.append("%s: %d Print Assumptions answered 'Closed under the global context'%s" %
                                    (prop_file, closed, ("; axioms reported: " + " | ".join(a.strip() for a in axioms)) if axioms else ""))
            if axioms:
                self.trusted.append("axioms reported by Print Assumptions in %s: %s" % (prop_file, " | ".join(a.strip()[:300] for a in axioms)))
            return True
        # find failing theorem: line number in error
        m = re.search(r'line (\d+), characters', out)
        bad = None
        if m:
            ln = int(m.group(1)); upto = "\n".join(text.splitlines()[:ln])
            prev = re.findall(r"^(?:Theorem|Lemma|Corollary|Example|Fact)\s+([A-Za-z0-9_']+)", upto, re.M)
            bad = prev[-1] if prev else None
        hit = False
        for n in names:
            if n == bad: hit = True
            self.obl.append((n, not hit and bad is not None, "" if (not hit and bad is not None) else "not checked"))
        self.broken("theorem:%s" % (bad or prop_file), "coqc rejected props/%s: %s" % (prop_file, out[-1500:]))
        return False

    # ------------------------------------------------------------ correspondence
    def corr(self, name, preamble, cases, shard=400, nontrivial=None, sample=3, timeout=COQC_TIMEOUT, ctype=None):
        """cases: list of (coq_term:str, py_obj) ; preamble must define `check` and `prop` : T -> bool.
           ctype: optional Coq type of one case (then `cases : list ctype`, so shards made only of empty lists / None still type-check).
           Returns (mismatch_cases, violation_cases) as lists of py_obj."""
        if not cases:
            return [], []
        t_corr = time.time()
        d = os.path.join(self.scratch, "corr_" + re.sub(r"\W", "_", name)); os.makedirs(d, exist_ok=True)
        shards = [cases[i:i + shard] for i in range(0, len(cases), shard)]
        for k, shd in enumerate(shards):
            with open(os.path.join(d, "cases_%d.v" % k), "w") as f:
                f.write("From IQ Require Import CorrSupport.\n" + preamble + ("\nDefinition cases : list (%s) := [\n" % ctype if ctype else "\nDefinition cases := [\n"))
                f.write(";\n".join(c for c, _ in shd))
                f.write("].\nEval vm_compute in (Result (find_idx (fun c => negb (check c)) cases 0%nat) (find_idx (fun c => negb (prop c)) cases 0%nat)).\n")
        def run(k):
            rc, out = sh(["timeout", str(timeout), "coqc", "-Q", COQ, "IQ", "-Q", d, "Cases", os.path.join(d, "cases_%d.v" % k)], timeout=timeout + 30)
            return k, rc, out
        mism, viol, bad = [], [], []
        def take(k, rc, out):
            m = re.search(r"=\s*Result\s*(\[[^\]]*\])\s*(\[[^\]]*\])", out, re.S)
            if rc != 0 or not m: return False
            for i in re.findall(r"\d+", m.group(1)): mism.append(shards[k][int(i)][1])
            for i in re.findall(r"\d+", m.group(2)): viol.append(shards[k][int(i)][1])
            return True
        retry = []
        with ThreadPoolExecutor(NPROC) as ex:
            for k, rc, out in ex.map(run, range(len(shards))):
                if not take(k, rc, out): retry.append((k, rc, out))
        # a shard killed by the time limit on an overloaded machine (exit 124/137, no Coq error text) is evaluated once more, alone, with a longer limit
        for k, rc, out in retry:
            if rc in (124, 137, -9) and "Error" not in out:
                rc2, out2 = sh(["timeout", str(4 * timeout), "coqc", "-Q", COQ, "IQ", "-Q", d, "Cases", os.path.join(d, "cases_%d.v" % k)], timeout=4 * timeout + 30)
                if take(k, rc2, out2): continue
                rc, out = rc2, out2
            bad.append((k, "exit %s: %s" % (rc, out[-800:])))
        n = len(cases)
        self.cov["evaluations"] += n
        distinct = set(c for c, _ in cases) if nontrivial is None else set(c for c, o in cases if nontrivial(o))
        self.cov["distinct_nontrivial"] += len(distinct)
        self.cov["traces_validated_against_impl"] += n
        self.cov["correspondences"][name] = dict(cases=n, distinct_nontrivial=len(distinct), mismatches=len(mism), spec_violations=len(viol), broken_shards=len(bad), wall_s=round(time.time() - t_corr, 1))
        for c, _ in cases[:sample]:
            self.cov["samples"].append({"correspondence": name, "case": c[:600]})
        if bad:
            self.broken("correspondence:%s" % name, "coqc failed on %d shard(s): %s" % (len(bad), bad[0][1]))
        shutil.rmtree(d, ignore_errors=True)
        return mism, viol

    def corr_report(self, name, mism, viol, keyfn=None, what=None, limit=5):
        """standard handling: spec violations are concrete failing inputs; mismatches without any violation break the correspondence"""
        for o in viol[:limit] if keyfn is None else viol:
            key = keyfn(o) if keyfn else None
            self.violation(key, (what or name) + ": implementation output fails the specification", {"correspondence": name, "case": o})
        # model/implementation mismatches that are NOT specification violations always break the correspondence (they must not hide behind
        # violations of other cases, e.g. listed known findings); mismatches on violating cases are covered by those violations
        only = [m for m in mism if not any(m is v for v in viol)]
        if only:
            self.broken("correspondence:%s" % name, "%d case(s) where the model and the implementation differ without a specification violation, e.g. %s" % (len(only), json.dumps(only[0], default=str)[:800]),
                        extra={"mismatching_cases": only[:limit]})
        if mism and viol:
            self.notes.append("%s: %d mismatching cases (of which %d violate the specification)" % (name, len(mism), len(mism) - len(only)))

    # ------------------------------------------------------------ results
    def violation(self, key, what, replay):
        self.violations.append(dict(key=key, what=what, replay=replay))
    def broken(self, name, detail, extra=None):
        self.brokens.append(dict(name=name, detail=detail, extra=extra))
    def rule(self, text): self.rules.append(text)
    def sample(self, obj):
        if len(self.cov["samples"]) < 40: self.cov["samples"].append(obj)
    def count(self, evaluations=0, nontrivial=0, traces=0):
        self.cov["evaluations"] += evaluations; self.cov["distinct_nontrivial"] += nontrivial; self.cov["traces_validated_against_impl"] += traces

    def finish(self):
        kf = known_findings()
        listed = {f["key"]: f for f in kf.get("findings", []) if f["property"] == self.pid}
        out_dir = os.path.join(VERIF, "out", "replays"); os.makedirs(out_dir, exist_ok=True)
        lines = []; status = 0; seen_keys = {}
        new = []
        for v in self.violations:
            if v["key"] is not None and v["key"] in listed:
                seen_keys.setdefault(v["key"], v)
            else:
                new.append(v)
        for k, v in seen_keys.items():
            lines.append("KNOWN-FINDING: property=%s %s [%s]" % (self.pid, listed[k]["what"], k))
        # group new violations by key/what to avoid flooding
        grouped = {}
        for v in new: grouped.setdefault((v["key"], v["what"]), []).append(v)
        stamp = "%s_%d_%d" % (self.pid, int(self.t0), os.getpid())
        i = 0
        for (key, what), vs in grouped.items():
            p = os.path.join(out_dir, "%s_%d.json" % (stamp, i)); i += 1
            json.dump(dict(property=self.pid, kind="input", key=key, what=what, count=len(vs), replay=vs[0]["replay"], more=[x["replay"] for x in vs[1:4]],
                           how_to_run="./check %s --replay %s" % (self.pid, p)), open(p, "w"), indent=1, default=str)
            lines.append("VIOLATION property=%s replay=%s" % (self.pid, p)); status = 1
        if self.brokens:
            if new:
                # the concrete inputs above are the replay; still name what broke
                for b in self.brokens: self.notes.append("no longer checks: %s" % b["name"])
            else:
                p = os.path.join(out_dir, "%s_broken.json" % stamp)
                json.dump(dict(property=self.pid, kind="theorem-or-correspondence", no_longer_checks=[b["name"] for b in self.brokens],
                               detail=self.brokens, known_findings_seen=list(seen_keys)), open(p, "w"), indent=1, default=str)
                lines.append("VIOLATION property=%s replay=%s no-failing-input-found" % (self.pid, p)); status = 1
        for l in lines: print(l)
        # evidence
        n_obl = len(self.obl); n_ok = sum(1 for o in self.obl if o[1])
        cov = dict(self.cov)
        cov.update(obligations=n_obl, discharged=n_ok, checker_cmd="; ".join(dict.fromkeys(self.checker_cmds)) or "none",
                   trusted_base=self.trusted + self.assumptions,
                   rule=" || ".join(self.rules) or "see correspondences", theorems=[o[0] for o in self.obl],
                   theorems_failed=[o[0] for o in self.obl if not o[1]], source_blob_hashes=self.src_hashes,
                   known_findings_seen=sorted(seen_keys), notes=self.notes)
        if self.exhaustive is not None:
            if isinstance(self.exhaustive, dict):        # a check may describe the finite space it enumerated: the schema field itself is a boolean
                cov["exhaustive"] = bool(self.exhaustive.get("complete", True)); cov["exhaustive_domain"] = self.exhaustive
            else:
                cov["exhaustive"] = bool(self.exhaustive)
        if not cov["samples"]: cov["samples"] = [{"theorems": [o[0] for o in self.obl][:10]}]
        ev = dict(property_id=self.pid, tier=self.tier, seed=self.seed, level="proof", coverage=cov, assumptions=self.assume,
                  wall_s=round(time.time() - self.t0, 1), violations=len(new) + (1 if self.brokens and not new else 0))
        os.makedirs(os.path.join(VERIF, "evidence"), exist_ok=True)
        tmp = os.path.join(VERIF, "evidence", "%s.json.tmp" % self.pid)
        json.dump(ev, open(tmp, "w"), indent=1, default=str); os.replace(tmp, os.path.join(VERIF, "evidence", "%s.json" % self.pid))
        shutil.rmtree(self.scratch, ignore_errors=True)
        print("%s %s tier=%s seed=%d: %d/%d theorems, %d evaluations, %d known finding(s), %d violation(s), %.0f s" %
              ("OK" if status == 0 else "FAIL", self.pid, self.tier, self.seed, n_ok, n_obl, cov["evaluations"], len(seen_keys), len(grouped) + (1 if self.brokens and not new else 0), time.time() - self.t0))
        return status
