#!/usr/bin/env python3
"""C14 trace wrapper: runs the unmodified isoquant.py of $VERIF_REPO with ExonCorrector.correct_assigned_read and
IlluminaExonCorrector.correct_exons wrapped by loggers (inputs the corrector reads, its collaborator calls, its result).
Active only under ABLAB_ISOQUANT_VERIF=1; nothing in the repository is touched.  One JSON object per line goes to
$C14_TRACE.<pid> (one file per process, so worker processes never interleave)."""
import os, sys, json, runpy

REPO = os.environ.get("VERIF_REPO", "/repo")
if os.environ.get("ABLAB_ISOQUANT_VERIF") != "1":
    sys.stderr.write("c14_wrapper: ABLAB_ISOQUANT_VERIF=1 is required\n"); sys.exit(2)
sys.path.insert(0, REPO)
TRACE = os.environ["C14_TRACE"]
_fh = {}

def _out():
    pid = os.getpid()
    if pid not in _fh: _fh[pid] = open("%s.%d" % (TRACE, pid), "a")
    return _fh[pid]

def _pairs(l): return [[int(a), int(b)] for a, b in l]

def install():
    from src import exon_corrector as ec, illumina_exon_corrector as ic
    orig = ec.ExonCorrector.correct_assigned_read
    def correct_assigned_read(self, alignment_info, read_assignment):
        calls = []
        real_gec = alignment_info.get_error_count
        def gec(start, end, intron_index=None, left_site=True, chr_record=None):
            r = real_gec(start, end, intron_index=intron_index, left_site=left_site, chr_record=chr_record)
            calls.append([int(start), int(end), int(intron_index), bool(left_site), int(r[0]), int(r[1])])
            return r
        alignment_info.get_error_count = gec
        rec = dict(kind="assigned", read_id=read_assignment.read_id, exons=_pairs(alignment_info.read_exons),
                   assignment_type=read_assignment.assignment_type.name, n_matches=len(read_assignment.isoform_matches or []))
        try:
            p = self.params
            rec["flags"] = [bool(p.correct_fuzzy_junctions), bool(p.correct_intron_shifts), bool(p.correct_skipped_exons), bool(p.correct_terminal_exons),
                            bool(p.correct_fake_terminal_exons), bool(p.correct_microintron_retention)]
            rec["delta"] = int(p.delta)
            rec["strategy"] = getattr(p, "splice_correction_strategy", None)
            rec["read_region"] = [int(alignment_info.read_start), int(alignment_info.read_end)]
            if alignment_info.combined_profile is not None:
                rec["read_introns"] = _pairs(alignment_info.combined_profile.read_intron_profile.read_features)
            if read_assignment.isoform_matches:
                m = read_assignment.isoform_matches[0]
                rec["isoform"] = m.assigned_transcript
                rec["events"] = [[e.event_type.name, [int(e.isoform_region[0]), int(e.isoform_region[1])], [int(e.read_region[0]), int(e.read_region[1])]]
                                 for e in m.match_subclassifications]
                if m.assigned_transcript is not None and m.assigned_transcript in self.gene_info.all_isoforms_introns:
                    rec["isoform_region"] = [int(x) for x in self.gene_info.transcript_region(m.assigned_transcript)]
                    rec["isoform_introns"] = _pairs(self.gene_info.all_isoforms_introns[m.assigned_transcript])
            rec["known"] = _pairs(self.gene_info.intron_profiles.features)
            rec["chr"] = self.gene_info.chr_id
        except Exception as e:                       # never let logging change the behaviour
            rec["log_error"] = repr(e)
        try:
            res = orig(self, alignment_info, read_assignment)
            rec["result"] = _pairs(res); rec["calls"] = calls
            return res
        except BaseException as e:
            rec["raised"] = type(e).__name__; rec["calls"] = calls
            raise
        finally:
            try: del alignment_info.get_error_count
            except AttributeError: pass
            f = _out(); f.write(json.dumps(rec) + "\n"); f.flush()
    ec.ExonCorrector.correct_assigned_read = correct_assigned_read

    orig_ce = ic.IlluminaExonCorrector.correct_exons
    def correct_exons(self, exons):
        rec = dict(kind="illumina", exons=_pairs(exons), short=_pairs(list(self.short_introns)), chr=str(self.chromosome))
        try:
            res = orig_ce(self, exons)
            rec["result"] = _pairs(res)
            return res
        except BaseException as e:
            rec["raised"] = type(e).__name__
            raise
        finally:
            f = _out(); f.write(json.dumps(rec) + "\n"); f.flush()
    ic.IlluminaExonCorrector.correct_exons = correct_exons


if __name__ == "__main__":
    install()
    script = os.path.join(REPO, "isoquant.py")
    sys.argv = [script] + sys.argv[1:]
    runpy.run_path(script, run_name="__main__")
