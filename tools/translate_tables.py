#!/usr/bin/env python3
"""Fail-closed extraction of enums / sets / cost tables / constants from IsoQuant sources into Coq (prototype)."""
import ast, sys, os
from fractions import Fraction
REPO = sys.argv[1] if len(sys.argv) > 1 else "/repo"

class Refuse(Exception): pass
def refuse(node, why): raise Refuse("%s at line %s: %s" % (why, getattr(node, "lineno", "?"), ast.unparse(node)[:80]))

def parse(path): return ast.parse(open(os.path.join(REPO, path)).read())
def top_class(tree, name):
    for n in tree.body:
        if isinstance(n, ast.ClassDef) and n.name == name: return n
    raise Refuse("class %s not found" % name)
def top_assign(tree, name):
    for n in tree.body:
        if isinstance(n, ast.Assign) and len(n.targets) == 1 and isinstance(n.targets[0], ast.Name) and n.targets[0].id == name: return n.value
    raise Refuse("assignment %s not found" % name)

def enum_members(cls):
    """[(name, int)] for `name = <int literal>` lines of an Enum class body."""
    out = []
    for n in cls.body:
        if isinstance(n, ast.Assign):
            if len(n.targets) != 1 or not isinstance(n.targets[0], ast.Name): refuse(n, "enum member shape")
            v = n.value
            if isinstance(v, ast.Constant) and isinstance(v.value, int) and not isinstance(v.value, bool): out.append((n.targets[0].id, v.value))
            elif isinstance(v, ast.Constant) and isinstance(v.value, float): continue     # e.g. AmbiguityResolvingMethod.minimal_score
            else: refuse(n, "enum value not an int literal")
        elif isinstance(n, (ast.FunctionDef, ast.Expr, ast.Pass)): continue
        else: refuse(n, "unexpected statement in enum")
    names = [a for a, _ in out]; vals = [b for _, b in out]
    if len(set(names)) != len(names): raise Refuse("duplicate enum names")
    return out

def member_ref(node, enum_name, allow_cls=False):
    """`Enum.member` or (inside classmethods) `cls.member` -> member name."""
    if isinstance(node, ast.Attribute) and isinstance(node.value, ast.Name) and (node.value.id == enum_name or (allow_cls and node.value.id in ("cls", enum_name))):
        return node.attr
    refuse(node, "not a %s member reference" % enum_name)

def set_of(node, enum_name, env, allow_cls=False):
    """Evaluate a set expression: literal set/list of members, a known name, a.union(b), a.difference(b)."""
    if isinstance(node, (ast.Set, ast.List)): return [member_ref(e, enum_name, allow_cls) for e in node.elts]
    if isinstance(node, ast.Name) and node.id in env: return env[node.id]
    if isinstance(node, ast.Call) and isinstance(node.func, ast.Attribute) and node.func.attr in ("union", "difference") and len(node.args) == 1:
        a = set_of(node.func.value, enum_name, env); b = set_of(node.args[0], enum_name, env)
        return a + [x for x in b if x not in a] if node.func.attr == "union" else [x for x in a if x not in b]
    refuse(node, "unsupported set expression")

def pred_method(cls, name, enum_name, env, arg):
    """method whose body is `return <arg> in <set-expr>`"""
    for n in cls.body:
        if isinstance(n, ast.FunctionDef) and n.name == name:
            body = [s for s in n.body if not (isinstance(s, ast.Expr) and isinstance(s.value, ast.Constant))]
            if len(body) != 1 or not isinstance(body[0], ast.Return): refuse(n, "predicate body shape")
            c = body[0].value
            if not (isinstance(c, ast.Compare) and len(c.ops) == 1 and isinstance(c.ops[0], ast.In) and isinstance(c.left, ast.Name) and c.left.id == arg): refuse(c, "predicate not `x in S`")
            return set_of(c.comparators[0], enum_name, env, allow_cls=True)
    raise Refuse("method %s not found" % name)

def q_of(node):
    if isinstance(node, ast.Constant) and isinstance(node.value, (int, float)) and not isinstance(node.value, bool):
        f = Fraction(repr(node.value)) if isinstance(node.value, float) else Fraction(node.value)   # decimal literal as written
        return "(%d # %d)" % (f.numerator, f.denominator)
    refuse(node, "not a numeric literal")

def coq_ident(s): return s if s not in ("all", "none", "at", "in", "if", "then", "else", "fun", "match", "end", "with", "Type", "Set", "Prop", "return") else s + "_"

def emit_enum(tname, members):
    cons = " | ".join("%s_%s" % (tname, coq_ident(m)) for m, _ in members)
    lines = ["Inductive %s := %s." % (tname, cons)]
    lines.append("Definition %s_value (x:%s) : N := match x with %s end." % (tname, tname, " ".join("| %s_%s => %d" % (tname, coq_ident(m), v) for m, v in members)))
    lines.append("Definition %s_all : list %s := [%s]." % (tname, tname, "; ".join("%s_%s" % (tname, coq_ident(m)) for m, _ in members)))
    lines.append("Definition %s_eqb (a b:%s) : bool := N.eqb (%s_value a) (%s_value b)." % (tname, tname, tname, tname))
    return lines
def emit_set(name, tname, members): return ["Definition %s : list %s := [%s]." % (name, tname, "; ".join("%s_%s" % (tname, coq_ident(m)) for m in members))]

def main():
    out = ["(* GENERATED by translate_tables.py from %s -- do not edit *)" % REPO,
           "From Coq Require Import NArith ZArith QArith List. Import ListNotations. Open Scope N_scope.", ""]
    ia = parse("src/isoform_assignment.py")
    rat = enum_members(top_class(ia, "ReadAssignmentType")); out += emit_enum("RAT", rat)
    for m in ("is_inconsistent", "is_consistent", "is_unassigned", "is_unique", "is_ambiguous"):
        # bodies are `return self in [ReadAssignmentType.a, ...]`
        out += emit_set("RAT_" + m, "RAT", pred_method(top_class(ia, "ReadAssignmentType"), m, "ReadAssignmentType", {}, "self"))
    mes = enum_members(top_class(ia, "MatchEventSubtype")); out += [""] + emit_enum("MES", mes)
    env = {}
    for nm in ("nnic_event_types", "nic_event_types", "nonintronic_events", "all_major_events", "intronic_major_events"):
        env[nm] = set_of(top_assign(ia, nm), "MatchEventSubtype", env); out += emit_set("MES_" + nm, "MES", env[nm])
    for m in ("is_alignment_artifact", "is_minor_error", "is_consistent", "is_major_elongation", "is_minor_elongation", "is_major_inconsistency", "is_intronic_inconsistency"):
        out += emit_set("MES_" + m, "MES", pred_method(top_class(ia, "MatchEventSubtype"), m, "MatchEventSubtype", env, "match_event_subtype"))
    cost = top_assign(ia, "event_subtype_cost")
    if not isinstance(cost, ast.Dict): refuse(cost, "cost table not a dict literal")
    pairs = [(member_ref(k, "MatchEventSubtype"), q_of(v)) for k, v in zip(cost.keys, cost.values)]
    if len(set(p[0] for p in pairs)) != len(pairs) or not set(p[0] for p in pairs) <= set(m for m, _ in mes): raise Refuse("cost table keys")
    out += ["Definition MES_cost (x:MES) : option Q := match x with %s | _ => None end." % " ".join("| MES_%s => Some %s" % (coq_ident(k), q) for k, q in pairs)]
    out += emit_set("MES_without_cost", "MES", [m for m, _ in mes if m not in set(p[0] for p in pairs)])
    mc = enum_members(top_class(ia, "MatchClassification")); out += [""] + emit_enum("MC", mc)
    ser = parse("src/serialization.py")
    out.append("")
    for n in ser.body:
        if isinstance(n, ast.Assign) and isinstance(n.targets[0], ast.Name) and n.targets[0].id.isupper():
            v = n.value
            try: val = eval(compile(ast.Expression(v), "<const>", "eval"), {"__builtins__": {}}, {})     # literals and << - only
            except Exception: refuse(n, "constant expression")
            if isinstance(val, int): out.append("Definition SER_%s : N := %d." % (n.targets[0].id, val))
            elif isinstance(val, str): out.append("(* SER_%s = %r *)" % (n.targets[0].id, val))
            else: refuse(n, "constant type")
    ap = parse("src/alignment_processor.py")
    for cname, fields in (("AbstractAlignmentStorage", ["COVERAGE_BIN"]), ("AlignmentCollector", ["MAX_REGION_LEN", "MIN_READS_TO_SPLIT", "ABS_COV_VALLEY", "REL_COV_VALLEY"])):
        cls = top_class(ap, cname)
        for n in cls.body:
            if isinstance(n, ast.Assign) and isinstance(n.targets[0], ast.Name) and n.targets[0].id in fields:
                if isinstance(n.value.value, float): out.append("Definition AP_%s : Q := %s." % (n.targets[0].id, q_of(n.value)))
                else: out.append("Definition AP_%s : Z := %d%%Z." % (n.targets[0].id, n.value.value))
    print("\n".join(out))
if __name__ == "__main__":
    try: main()
    except Refuse as e: sys.stderr.write("TRANSLATOR REFUSES: %s\n" % e); sys.exit(3)
