#!/usr/bin/env python3
"""Fail-closed extraction of enums / sets / cost tables / constants from IsoQuant sources into Coq (prototype)."""
import ast, sys, os
from fractions import Fraction
REPO = sys.argv[1] if len(sys.argv) > 1 else "/repo"

class Refuse(Exception): pass
def refuse(node, why): raise Refuse("%s at line %s: %s" % (why, getattr(node, "lineno", "?"), ast.unparse(node)[:80]))

def parse(path): return ast.parse(open(os.path.join(REPO, path)).read())
def top_class(tree, name):
    for n in tree.body:
        if isinstance(n, ast.ClassDef) and n.name == name: return n
    raise Refuse("class %s not found" % name)
def top_assign(tree, name):
    for n in tree.body:
        if isinstance(n, ast.Assign) and len(n.targets) == 1 and isinstance(n.targets[0], ast.Name) and n.targets[0].id == name: return n.value
    raise Refuse("assignment %s not found" % name)

def enum_members(cls):
    """[(name, int)] for `name = <int literal>` lines of an Enum class body."""
    out = []
    for n in cls.body:
        if isinstance(n, ast.Assign):
            if len(n.targets) != 1 or not isinstance(n.targets[0], ast.Name): refuse(n, "enum member shape")
            v = n.value
            if isinstance(v, ast.Constant) and isinstance(v.value, int) and not isinstance(v.value, bool): out.append((n.targets[0].id, v.value))
            elif isinstance(v, ast.Constant) and isinstance(v.value, float): continue     # e.g. AmbiguityResolvingMethod.minimal_score
            else: refuse(n, "enum value not an int literal")
        elif isinstance(n, (ast.FunctionDef, ast.Expr, ast.Pass)): continue
        else: refuse(n, "unexpected statement in enum")
    names = [a for a, _ in out]; vals = [b for _, b in out]
    if len(set(names)) != len(names): raise Refuse("duplicate enum names")
    return out

def member_ref(node, enum_name, allow_cls=False):
    """`Enum.member` or (inside classmethods) `cls.member` -> member name."""
    if isinstance(node, ast.Attribute) and isinstance(node.value, ast.Name) and (node.value.id == enum_name or (allow_cls and node.value.id in ("cls", enum_name))):
        return node.attr
    refuse(node, "not a %s member reference" % enum_name)

def set_of(node, enum_name, env, allow_cls=False):
    """Evaluate a set expression: literal set/list of members, a known name, a.union(b), a.difference(b)."""
    if isinstance(node, (ast.Set, ast.List)): return [member_ref(e, enum_name, allow_cls) for e in node.elts]
    if isinstance(node, ast.Name) and node.id in env: return env[node.id]
    if isinstance(node, ast.Call) and isinstance(node.func, ast.Attribute) and node.func.attr in ("union", "difference") and len(node.args) == 1:
        a = set_of(node.func.value, enum_name, env); b = set_of(node.args[0], enum_name, env)
        return a + [x for x in b if x not in a] if node.func.attr == "union" else [x for x in a if x not in b]
    refuse(node, "unsupported set expression")

def pred_method(cls, name, enum_name, env, arg):
    """method whose body is `return <arg> in <set-expr>`"""
    for n in cls.body:
        if isinstance(n, ast.FunctionDef) and n.name == name:
            body = [s for s in n.body if not (isinstance(s, ast.Expr) and isinstance(s.value, ast.Constant))]
            if len(body) != 1 or not isinstance(body[0], ast.Return): refuse(n, "predicate body shape")
            c = body[0].value
            if not (isinstance(c, ast.Compare) and len(c.ops) == 1 and isinstance(c.ops[0], ast.In) and isinstance(c.left, ast.Name) and c.left.id == arg): refuse(c, "predicate not `x in S`")
            return set_of(c.comparators[0], enum_name, env, allow_cls=True)
    raise Refuse("method %s not found" % name)

def q_of(node):
    if isinstance(node, ast.Constant) and isinstance(node.value, (int, float)) and not isinstance(node.value, bool):
        f = Fraction(repr(node.value)) if isinstance(node.value, float) else Fraction(node.value)   # decimal literal as written
        return "(%d # %d)" % (f.numerator, f.denominator)
    refuse(node, "not a numeric literal")

def coq_ident(s): return s if s not in ("all", "none", "at", "in", "if", "then", "else", "fun", "match", "end", "with", "Type", "Set", "Prop", "return") else s + "_"

def emit_enum(tname, members):
    cons = " | ".join("%s_%s" % (tname, coq_ident(m)) for m, _ in members)
    lines = ["Inductive %s := %s." % (tname, cons)]
    lines.append("Definition %s_value (x:%s) : N := match x with %s end." % (tname, tname, " ".join("| %s_%s => %d" % (tname, coq_ident(m), v) for m, v in members)))
    lines.append("Definition %s_all : list %s := [%s]." % (tname, tname, "; ".join("%s_%s" % (tname, coq_ident(m)) for m, _ in members)))
    lines.append("Definition %s_eqb (a b:%s) : bool := N.eqb (%s_value a) (%s_value b)." % (tname, tname, tname, tname))
    return lines
def emit_set(name, tname, members): return ["Definition %s : list %s := [%s]." % (name, tname, "; ".join("%s_%s" % (tname, coq_ident(m)) for m in members))]

# ---------------------------------------------------------------- matching-strategy presets (isoquant.py set_matching_options)
def top_func(tree, name):
    for n in tree.body:
        if isinstance(n, ast.FunctionDef) and n.name == name: return n
    raise Refuse("function %s not found" % name)

def num_lit(node):
    """int / float literal (optionally negated) -> python number"""
    if isinstance(node, ast.UnaryOp) and isinstance(node.op, ast.USub): return -num_lit(node.operand)
    if isinstance(node, ast.Constant) and isinstance(node.value, (int, float)) and not isinstance(node.value, bool): return node.value
    refuse(node, "not a numeric literal")

def coq_q(v):
    f = Fraction(repr(v)) if isinstance(v, float) else Fraction(v)
    return "(%d # %d)%%Q" % (f.numerator, f.denominator)

def matching_presets(out):
    """Fail-closed reading of set_matching_options: the `strategies` dict of MatchingStrategy(...) literals with the namedtuple's field
       order, and every `args.<name> = <literal | min(lit, args.x) | args.y | strategy.<field>>` assignment at the top level of the function."""
    lra = parse("src/long_read_assigner.py")
    arm = []
    for n in top_class(lra, "AmbiguityResolvingMethod").body:
        if isinstance(n, ast.Assign) and len(n.targets) == 1 and isinstance(n.targets[0], ast.Name):
            v = num_lit(n.value)
            if isinstance(v, int): arm.append((n.targets[0].id, v))
    if not arm or len(set(a for a, _ in arm)) != len(arm): raise Refuse("AmbiguityResolvingMethod members")
    out.append("")
    out.append("Inductive ARM := %s." % " | ".join("ARM_%s" % coq_ident(a) for a, _ in arm))
    out.append("Definition ARM_value (x:ARM) : Z := match x with %s end." % " ".join("| ARM_%s => (%d)%%Z" % (coq_ident(a), v) for a, v in arm))
    fn = top_func(parse("isoquant.py"), "set_matching_options")
    fields = None; presets = None; consts = []; from_strategy = {}
    want_fields = ['delta', 'max_intron_shift', 'max_missed_exon_len', 'max_fake_terminal_exon_len', 'max_suspicious_intron_abs_len',
                   'max_suspicious_intron_rel_len', 'resolve_ambiguous', 'correct_minor_errors']
    for st in fn.body:
        if not isinstance(st, ast.Assign) or len(st.targets) != 1: continue          # if-blocks (delta / resolve_ambiguous overrides from the command line) and logging
        t = st.targets[0]; v = st.value
        if isinstance(t, ast.Name) and t.id == "MatchingStrategy":
            if not (isinstance(v, ast.Call) and getattr(v.func, "id", None) == "namedtuple" and len(v.args) == 2 and isinstance(v.args[1], ast.Tuple)): refuse(st, "MatchingStrategy shape")
            fields = [e.value for e in v.args[1].elts]
        elif isinstance(t, ast.Name) and t.id == "strategies":
            if not isinstance(v, ast.Dict): refuse(st, "strategies not a dict literal")
            presets = []
            for k, c in zip(v.keys, v.values):
                if not (isinstance(k, ast.Constant) and isinstance(k.value, str) and isinstance(c, ast.Call) and getattr(c.func, "id", None) == "MatchingStrategy" and not c.keywords): refuse(c, "preset shape")
                presets.append((k.value, c.args))
        elif isinstance(t, ast.Attribute) and isinstance(t.value, ast.Name) and t.value.id == "args":
            nm = t.attr
            if isinstance(v, ast.Attribute) and isinstance(v.value, ast.Name) and v.value.id == "strategy":
                if v.attr != nm: refuse(st, "args.%s taken from another preset field" % nm)
                from_strategy[nm] = True
            elif isinstance(v, ast.Attribute) and isinstance(v.value, ast.Name) and v.value.id == "args":
                consts.append((nm, ("alias", v.attr)))
            elif isinstance(v, ast.Call) and getattr(v.func, "id", None) == "min" and len(v.args) == 2 and isinstance(v.args[1], ast.Attribute) and getattr(v.args[1].value, "id", None) == "args":
                consts.append((nm, ("min", num_lit(v.args[0]), v.args[1].attr)))
            elif isinstance(v, ast.Subscript): continue                                # args.resolve_ambiguous = AmbiguityResolvingMethod[...]
            else: consts.append((nm, ("lit", num_lit(v))))
        elif isinstance(t, ast.Name) and t.id in ("strategy", "updated_strategy"): continue
        else: refuse(st, "unexpected assignment in set_matching_options")
    if fields != want_fields: raise Refuse("MatchingStrategy fields changed: %s" % fields)
    if presets is None or [p[0] for p in presets] != ['exact', 'precise', 'default', 'loose']: raise Refuse("matching strategy names changed")
    for f in want_fields[1:6] + ['correct_minor_errors']:
        if f not in from_strategy: raise Refuse("args.%s is no longer taken from the preset" % f)
    out.append("Record MSP := mkMSP { ms_delta : Z; ms_max_intron_shift : Z; ms_max_missed_exon_len : Z; ms_max_fake_terminal_exon_len : Z; "
               "ms_max_suspicious_intron_abs_len : Z; ms_max_suspicious_intron_rel_len : Q; ms_resolve_ambiguous : ARM; ms_correct_minor_errors : bool }.")
    arm_names = set(a for a, _ in arm)
    for name, a in presets:
        if len(a) != 8: raise Refuse("preset %s arity" % name)
        ints = [num_lit(x) for x in a[:5]]
        if not all(isinstance(x, int) for x in ints): raise Refuse("preset %s: integer fields" % name)
        rel = num_lit(a[5])
        if not (isinstance(a[6], ast.Constant) and a[6].value in arm_names): refuse(a[6], "resolve_ambiguous not a member name")
        if not (isinstance(a[7], ast.Constant) and isinstance(a[7].value, bool)): refuse(a[7], "correct_minor_errors not a bool")
        out.append("Definition MS_%s : MSP := mkMSP %s %s ARM_%s %s." % (coq_ident(name), " ".join("(%d)%%Z" % x for x in ints), coq_q(rel), coq_ident(a[6].value), "true" if a[7].value else "false"))
    out.append("Inductive MSN := %s." % " | ".join("MSN_%s" % coq_ident(n) for n, _ in presets))
    out.append("Definition MSN_all : list MSN := [%s]." % "; ".join("MSN_%s" % coq_ident(n) for n, _ in presets))
    out.append("Definition MS_preset (n:MSN) : MSP := match n with %s end." % " ".join("| MSN_%s => MS_%s" % (coq_ident(n), coq_ident(n)) for n, _ in presets))
    # the options every strategy shares
    done = {}
    for nm, v in consts:
        if nm in done: raise Refuse("args.%s assigned twice" % nm)
        if v[0] == "lit":
            out.append("Definition MO_%s : %s := %s." % (nm, "Q" if isinstance(v[1], float) else "Z", coq_q(v[1]) if isinstance(v[1], float) else "(%d)%%Z" % v[1]))
            done[nm] = "Q" if isinstance(v[1], float) else "Z"
        elif v[0] == "alias":
            if v[1] not in done: raise Refuse("args.%s = args.%s before its definition" % (nm, v[1]))
            out.append("Definition MO_%s : %s := MO_%s." % (nm, done[v[1]], v[1])); done[nm] = done[v[1]]
        else:
            if v[2] not in want_fields or not isinstance(v[1], int): raise Refuse("args.%s: min() shape" % nm)
            out.append("Definition MO_%s (s:MSP) : Z := Z.min (%d)%%Z (ms_%s s)." % (nm, v[1], v[2])); done[nm] = "fun"
    for need in ("minor_exon_extension", "major_exon_extension", "min_abs_exon_overlap", "min_rel_exon_overlap", "micro_intron_length", "max_intron_abs_diff",
                 "max_intron_rel_diff", "apa_delta", "minimal_exon_overlap", "minimal_intron_absence_overlap"):
        if need not in done: raise Refuse("args.%s no longer set by set_matching_options" % need)

def main():
    out = ["(* GENERATED by translate_tables.py from %s -- do not edit *)" % REPO,
           "From Coq Require Import NArith ZArith QArith List. Import ListNotations. Open Scope N_scope.", ""]
    ia = parse("src/isoform_assignment.py")
    rat = enum_members(top_class(ia, "ReadAssignmentType")); out += emit_enum("RAT", rat)
    for m in ("is_inconsistent", "is_consistent", "is_unassigned", "is_unique", "is_ambiguous"):
        # bodies are `return self in [ReadAssignmentType.a, ...]`
        out += emit_set("RAT_" + m, "RAT", pred_method(top_class(ia, "ReadAssignmentType"), m, "ReadAssignmentType", {}, "self"))
    mes = enum_members(top_class(ia, "MatchEventSubtype")); out += [""] + emit_enum("MES", mes)
    env = {}
    for nm in ("nnic_event_types", "nic_event_types", "nonintronic_events", "all_major_events", "intronic_major_events"):
        env[nm] = set_of(top_assign(ia, nm), "MatchEventSubtype", env); out += emit_set("MES_" + nm, "MES", env[nm])
    for m in ("is_alignment_artifact", "is_minor_error", "is_consistent", "is_major_elongation", "is_minor_elongation", "is_major_inconsistency", "is_intronic_inconsistency"):
        out += emit_set("MES_" + m, "MES", pred_method(top_class(ia, "MatchEventSubtype"), m, "MatchEventSubtype", env, "match_event_subtype"))
    cost = top_assign(ia, "event_subtype_cost")
    if not isinstance(cost, ast.Dict): refuse(cost, "cost table not a dict literal")
    pairs = [(member_ref(k, "MatchEventSubtype"), q_of(v)) for k, v in zip(cost.keys, cost.values)]
    if len(set(p[0] for p in pairs)) != len(pairs) or not set(p[0] for p in pairs) <= set(m for m, _ in mes): raise Refuse("cost table keys")
    out += ["Definition MES_cost (x:MES) : option Q := match x with %s | _ => None end." % " ".join("| MES_%s => Some %s" % (coq_ident(k), q) for k, q in pairs)]
    out += emit_set("MES_without_cost", "MES", [m for m, _ in mes if m not in set(p[0] for p in pairs)])
    mc = enum_members(top_class(ia, "MatchClassification")); out += [""] + emit_enum("MC", mc)
    post = []; matching_presets(post)
    for n in top_class(ia, "SupplementaryMatchConstants").body:
        if isinstance(n, ast.Assign) and len(n.targets) == 1 and isinstance(n.targets[0], ast.Name) and n.targets[0].id.endswith("_position"):
            try: val = eval(compile(ast.Expression(n.value), "<const>", "eval"), {"__builtins__": {}}, {})
            except Exception: refuse(n, "constant expression")
            if not isinstance(val, int): refuse(n, "constant type")
            post.append("Definition SMC_%s : Z := (%d)%%Z." % (n.targets[0].id, val))
    if len([l for l in post if l.startswith("Definition SMC_")]) != 4: raise Refuse("SupplementaryMatchConstants positions changed")
    ser = parse("src/serialization.py")
    out.append("")
    for n in ser.body:
        if isinstance(n, ast.Assign) and isinstance(n.targets[0], ast.Name) and n.targets[0].id.isupper():
            v = n.value
            try: val = eval(compile(ast.Expression(v), "<const>", "eval"), {"__builtins__": {}}, {})     # literals and << - only
            except Exception: refuse(n, "constant expression")
            if isinstance(val, int): out.append("Definition SER_%s : N := %d." % (n.targets[0].id, val))
            elif isinstance(val, str): out.append("(* SER_%s = %r *)" % (n.targets[0].id, val))
            else: refuse(n, "constant type")
    ap = parse("src/alignment_processor.py")
    for cname, fields in (("AbstractAlignmentStorage", ["COVERAGE_BIN"]), ("AlignmentCollector", ["MAX_REGION_LEN", "MIN_READS_TO_SPLIT", "ABS_COV_VALLEY", "REL_COV_VALLEY"])):
        cls = top_class(ap, cname)
        for n in cls.body:
            if isinstance(n, ast.Assign) and isinstance(n.targets[0], ast.Name) and n.targets[0].id in fields:
                if isinstance(n.value.value, float): out.append("Definition AP_%s : Q := %s." % (n.targets[0].id, q_of(n.value)))
                else: out.append("Definition AP_%s : Z := %d%%Z." % (n.targets[0].id, n.value.value))
    out += post
    print("\n".join(out))
if __name__ == "__main__":
    try: main()
    except Refuse as e: sys.stderr.write("TRANSLATOR REFUSES: %s\n" % e); sys.exit(3)
