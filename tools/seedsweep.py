#!/usr/bin/env python3
"""Re-validate every seeded change of /verif/seeded against the CURRENT /repo HEAD and the CURRENT checks, and rewrite the
`confirmed_by_coordinator` / `detection` parts of its meta.json.  usage: seedsweep.py [jobs] [name-prefix ...]
For each seeded/<id>: tools/seedtest.py confirm (suite with the change, demo with / without it) and tools/seedtest.py check <id's property>
(private copy of /verif, VERIF_REPO=<patched worktree>)."""
import sys, os, json, glob, subprocess
from concurrent.futures import ThreadPoolExecutor
HERE = os.path.dirname(os.path.abspath(__file__))
sys.path.insert(0, HERE)
import seedtest

def one(d):
    name = os.path.basename(d); pid = name.split("_")[0]
    try:
        pc = subprocess.run([sys.executable, os.path.join(HERE, "seedtest.py"), "confirm", d], capture_output=True, text=True, timeout=3600)
        conf = json.loads(pc.stdout[pc.stdout.index("{"):])
        pk = subprocess.run([sys.executable, os.path.join(HERE, "seedtest.py"), "check", d, pid], capture_output=True, text=True, timeout=7200)
        chk = json.loads(pk.stdout[pk.stdout.index("{"):])
    except Exception as e:
        return name, "ERROR %r" % e
    mp = os.path.join(d, "meta.json"); m = json.load(open(mp))
    m["confirmed_by_coordinator"] = dict(cmd="tools/seedtest.py confirm (scratch worktrees of /repo HEAD: suite with the change, demo.py with and without it)",
                                         suite_with_change=conf["suite_with_change"], demo_exit_with_change=conf["demo_with_change"], demo_exit_clean=conf["demo_clean"], confirmed=conf["confirmed"])
    m["detection"] = {p: dict(cmd="tools/seedtest.py check (private copy of /verif, VERIF_REPO=<patched worktree>): ./check %s --tier quick" % p, exit=r["exit"],
                              detected=r["exit"] == 1 and any(l.startswith("VIOLATION") for l in r["lines"]),
                              concrete_input=any(l.startswith("VIOLATION") and "no-failing-input-found" not in l for l in r["lines"]),
                              violations=[dict(key=x.get("key"), what=x.get("what"), replay=x.get("replay")) for x in r["detail"] if isinstance(x, dict)][:4], wall_s=r["wall_s"]) for p, r in chk.items()}
    json.dump(m, open(mp, "w"), indent=1)
    r = m["detection"][pid]
    return name, "confirmed=%s detected=%s concrete=%s %ss" % (conf["confirmed"], r["detected"], r["concrete_input"], r["wall_s"])

if __name__ == "__main__":
    jobs = int(sys.argv[1]) if len(sys.argv) > 1 else 5
    pref = sys.argv[2:]
    dirs = sorted(d for d in glob.glob("/verif/seeded/*") if os.path.isdir(d) and (not pref or any(os.path.basename(d).startswith(p) for p in pref)))
    with ThreadPoolExecutor(jobs) as ex:
        for name, res in ex.map(one, dirs):
            print(name, res, flush=True)
