#!/usr/bin/env python3
"""Writes /verif/MANIFEST.json from the table below (one place to keep it consistent)."""
import json, os
HERE = os.path.dirname(os.path.dirname(os.path.abspath(__file__)))
CLAIMED = {
 "C19": dict(text="Coq theorems over the TRANSLATED predicates of src/common.py (regenerated from the source on every run) and hand models of every sweep: overlaps/contains/intersection/equal_ranges characterisations, Jaccard and coverage accumulators = pairwise intersection sums (asserts unreachable), prefix sums, get_exons well-formedness, junction/exon round trip, binary-search soundness, gene-side profile characterisation; all for unbounded lists. Every function of the property (incl. merge_ranges, split_exons, set_profiles, both read-profile constructors) is tied to the code by exhaustive small-domain + random vm_compute correspondence with set-theoretic specifications evaluated in Coq.",
             note="Trusted: Coq kernel/vm_compute, PrimFloat primitives for bit-exact float comparison, translator tools/translate_prims.py, Python adapters. merge_ranges/split_exons/profile constructors: model = implementation by correspondence, set-theoretic spec evaluated on the enumerated domain (theorems for them are growth).",
             technique="Coq proof over translated source + vm_compute model-vs-implementation correspondence", ref="§5 C19"),
 "C16": dict(text="Coq theorems: get_read_blocks = independent SAM block specification for every CIGAR and reference start (no bound), exons increasing/disjoint, "
                  "polyA/polyT trimming never empties the exon list and moves the tail onto the retained exon (all inputs). Tied to the code by vm_compute correspondence of "
                  "get_read_blocks, AlignmentInfo on real pysam segments, concat_gapless_blocks, add_polya_info, PolyAFinder (exhaustive CIGARs <= 3/4 ops + random).",
             note="Trusted: Coq kernel/vm_compute, pysam cigartuples/get_blocks/reference_end, the Python adapters. Theorems are about hand-written Gallina models tied by differential testing.",
             technique="Coq proof (induction over CIGAR operation lists / exon lists) + vm_compute model-vs-implementation correspondence", ref="§5 C16"),
}
TODO = {}
def main():
    props = [json.loads(l) for l in open(os.path.join(HERE, "properties.jsonl"))]
    checks = []; na = []
    for p in props:
        pid = p["id"]
        if pid in CLAIMED:
            c = CLAIMED[pid]
            checks.append(dict(property_id=pid, quick_cmd="./check %s --tier quick" % pid, thorough_cmd="./check %s --tier thorough" % pid,
                               evidence_file="/verif/evidence/%s.json" % pid, replay_cmd_template="./check %s --replay {path}" % pid, engine="coq-model+correspondence",
                               level_claimed=dict(category="proof", text=c["text"], design_ref=c["ref"]), level_note=c["note"], technique=c["technique"]))
        else:
            na.append(dict(property_id=pid, reason=TODO.get(pid, "check not built yet in this round (model planned in DESIGN.md §5); not claimed")))
    m = dict(version=1, setup_cmd="./setup.sh",
             hooks=dict(guard="ABLAB_ISOQUANT_VERIF", enable="no hook code lives in /repo: instrumentation is applied by /verif/harness wrappers (monkey-patching) only when ABLAB_ISOQUANT_VERIF=1",
                        baseline_off_cmd="cd /repo && /venv/bin/python -m pytest -ra -q -p no:cacheprovider --timeout=900 --continue-on-collection-errors", source_commits=[], add_only=True),
             engines=[dict(name="coq-model+correspondence", path="/verif/coq + /verif/harness", serves_properties=sorted(CLAIMED),
                           kind_free_text="Coq 8.16.1 models and theorems (coq/, props/Cxx.v); translator tools/translate_*.py regenerates coq/gen from /repo on every run; harness/lib.py evaluates model-vs-implementation correspondence inside Coq (vm_compute)")],
             checks=checks, not_applicable=na,
             notes="Genuine defects repaired by 'fix:' commits in /repo and recorded findings are listed in /verif/known_findings.json; see DESIGN.md.")
    json.dump(m, open(os.path.join(HERE, "MANIFEST.json"), "w"), indent=1)
    print("claimed", len(checks), "not_applicable", len(na))
main()
