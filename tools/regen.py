#!/usr/bin/env python3
"""Regenerate coq/gen/*.v from the repository's current working tree (write only when the content changes).
   usage: regen.py <repo> <outdir>; prints a JSON line with the git blob hashes of the translated sources."""
import sys, os, subprocess, json, hashlib
HERE = os.path.dirname(os.path.abspath(__file__))
repo, outdir = sys.argv[1], sys.argv[2]
os.makedirs(outdir, exist_ok=True)
JOBS = [("translate_tables.py", "Tables.v"), ("translate_prims.py", "Prims.v"), ("translate_extra.py", "Extra.v"), ("translate_loops.py", "Loops.v")]
rc_all = 0
for script, target in JOBS:
    p = subprocess.run([sys.executable, os.path.join(HERE, script), repo], stdout=subprocess.PIPE, stderr=subprocess.PIPE, text=True)
    if p.returncode != 0:
        sys.stdout.write("%s: %s\n" % (script, p.stderr.strip())); rc_all = 3; continue
    path = os.path.join(outdir, target)
    old = open(path).read() if os.path.exists(path) else None
    if old != p.stdout:
        open(path, "w").write(p.stdout)
if rc_all: sys.exit(rc_all)
hashes = {}
for f in ["src/common.py", "src/isoform_assignment.py", "src/serialization.py", "src/alignment_processor.py", "src/long_read_counter.py", "isoquant.py",
          "src/assignment_io.py", "src/intron_graph.py", "src/polya_verification.py", "src/polya_finder.py", "src/dataset_processor.py"]:
    try: hashes[f] = hashlib.sha1(open(os.path.join(repo, f), "rb").read()).hexdigest()[:12]
    except OSError: pass
print(json.dumps(hashes))
