#!/usr/bin/env python3
"""print the markdown detection matrix from /verif/seeded/*/meta.json"""
import json, glob, os
print("| seeded change | what was changed | needs to manifest | check → result | first layer that reported it |")
print("|---|---|---|---|---|")
for d in sorted(glob.glob("/verif/seeded/*/meta.json")):
    m = json.load(open(d)); name = os.path.basename(os.path.dirname(d))
    for p, r in m["detection"].items():
        res = ("VIOLATION with concrete input" if r.get("concrete_input") else "VIOLATION no-failing-input-found") if r["detected"] else "MISSED"
        layers = "; ".join(dict.fromkeys((v.get("what") or "").split(":")[0][:70] for v in r.get("violations", [])))
        print("| `%s` | %s | %s | %s → %s | %s |" % (name, (m.get("summary") or "").replace("|", "/")[:260], (m.get("needs") or "").replace("|", "/")[:260], p, res, layers[:200]))
