#!/usr/bin/env python3
"""Fail-closed translation of loop-free integer/interval functions of src/common.py into Gallina (prototype)."""
import ast, sys, os
REPO = sys.argv[1] if len(sys.argv) > 1 else "/repo"
class Refuse(Exception): pass
def refuse(n, why): raise Refuse("%s at line %s: %s" % (why, getattr(n, "lineno", "?"), ast.unparse(n)[:80]))

FUNCS = {  # name -> parameter kinds ('r' = interval, 'z' = integer)
 "overlaps": "rr", "overlap_intervals": "rr", "overlaps_at_least": "rrz", "overlaps_at_least_when_overlap": "rrz",
 "intersection_len": "rr", "left_of": "rr", "equal_ranges": "rrz", "covers_end": "rr", "covers_start": "rr", "contains": "rr",
 "contains_well_inside": "rrz", "contains_approx": "rrz", "max_range": "rr", "interval_len": "r", "cmp": "zz"}

class Tr:
    def __init__(self, params, kinds): self.kind = dict(zip(params, kinds))
    def expr(self, n):
        """returns (coq, type) with type in {'Z','bool','ZZ'}"""
        if isinstance(n, ast.Constant) and isinstance(n.value, bool): return ("true" if n.value else "false", "bool")
        if isinstance(n, ast.Constant) and isinstance(n.value, int) and not isinstance(n.value, bool):
            return ("%d" % n.value if n.value >= 0 else "(%d)" % n.value, "Z")
        if isinstance(n, ast.Name):
            if n.id not in self.kind: refuse(n, "unknown name")
            return (n.id, {"r": "ZZ", "z": "Z", "b": "bool"}[self.kind[n.id]])
        if isinstance(n, ast.Subscript):
            v, t = self.expr(n.value)
            if t != "ZZ" or not (isinstance(n.slice, ast.Constant) and n.slice.value in (0, 1)): refuse(n, "subscript")
            return ("(%s %s)" % ("fst" if n.slice.value == 0 else "snd", v), "Z")
        if isinstance(n, ast.BinOp) and isinstance(n.op, (ast.Add, ast.Sub, ast.Mult)):
            a, ta = self.expr(n.left); b, tb = self.expr(n.right)
            if ta != "Z" or tb != "Z": refuse(n, "arithmetic on non-integers")
            return ("(%s %s %s)" % (a, {ast.Add: "+", ast.Sub: "-", ast.Mult: "*"}[type(n.op)], b), "Z")
        if isinstance(n, ast.UnaryOp) and isinstance(n.op, ast.Not):
            a, t = self.expr(n.operand)
            if t != "bool": refuse(n, "not on non-bool")
            return ("(negb %s)" % a, "bool")
        if isinstance(n, ast.UnaryOp) and isinstance(n.op, ast.USub):
            a, t = self.expr(n.operand)
            if t != "Z": refuse(n, "negation")
            return ("(- %s)" % a, "Z")
        if isinstance(n, ast.BoolOp):
            parts = [self.expr(v) for v in n.values]
            if any(t != "bool" for _, t in parts): refuse(n, "and/or on non-bool (Python truthiness is not modelled)")
            op = " && " if isinstance(n.op, ast.And) else " || "
            return ("(" + op.join(p for p, _ in parts) + ")", "bool")
        if isinstance(n, ast.Compare):
            terms = [n.left] + n.comparators; cs = []
            for a, op, b in zip(terms, n.ops, terms[1:]):
                x, tx = self.expr(a); y, ty = self.expr(b)
                if tx != "Z" or ty != "Z": refuse(n, "comparison of non-integers")
                sym = {ast.Lt: "<?", ast.LtE: "<=?", ast.Gt: ">?", ast.GtE: ">=?", ast.Eq: "=?"}.get(type(op))
                if sym is None: refuse(n, "comparison operator")
                cs.append("(%s %s %s)" % (x, sym, y))
            return (cs[0] if len(cs) == 1 else "(" + " && ".join(cs) + ")", "bool")
        if isinstance(n, ast.Call) and isinstance(n.func, ast.Name) and n.func.id in ("max", "min") and len(n.args) == 2 and not n.keywords:
            a, ta = self.expr(n.args[0]); b, tb = self.expr(n.args[1])
            if ta != "Z" or tb != "Z": refuse(n, "max/min")
            return ("(Z.%s %s %s)" % (n.func.id, a, b), "Z")
        if isinstance(n, ast.Call) and isinstance(n.func, ast.Name) and n.func.id == "abs" and len(n.args) == 1:
            a, ta = self.expr(n.args[0])
            if ta != "Z": refuse(n, "abs")
            return ("(Z.abs %s)" % a, "Z")
        if isinstance(n, ast.Tuple) and len(n.elts) == 2:
            a, ta = self.expr(n.elts[0]); b, tb = self.expr(n.elts[1])
            if ta != "Z" or tb != "Z": refuse(n, "tuple")
            return ("(%s, %s)" % (a, b), "ZZ")
        refuse(n, "unsupported expression")
    def block(self, stmts):
        """statements ending in return on every path -> (coq, type)"""
        if not stmts: raise Refuse("path without return")
        s, rest = stmts[0], stmts[1:]
        if isinstance(s, ast.Expr) and isinstance(s.value, ast.Constant) and isinstance(s.value.value, str): return self.block(rest)
        if isinstance(s, ast.Return):
            if s.value is None: refuse(s, "bare return")
            return self.expr(s.value)
        if isinstance(s, ast.Assign) and len(s.targets) == 1 and isinstance(s.targets[0], ast.Name):
            v, t = self.expr(s.value); name = s.targets[0].id
            if name in self.kind: refuse(s, "re-assignment")
            self.kind[name] = {"Z": "z", "bool": "b", "ZZ": "r"}[t]
            body, tb = self.block(rest)
            return ("(let %s := %s in %s)" % (name, v, body), tb)
        if isinstance(s, ast.If):
            c, tc = self.expr(s.test)
            if tc != "bool": refuse(s, "if on non-bool")
            saved = dict(self.kind); a, ta = self.block(list(s.body) + list(rest)); self.kind = dict(saved)
            b, tb = self.block(list(s.orelse) + list(rest)); self.kind = dict(saved)
            if ta != tb: refuse(s, "branches of different type")
            return ("(if %s then %s else %s)" % (c, a, b), ta)
        refuse(s, "unsupported statement")

def main():
    tree = ast.parse(open(os.path.join(REPO, "src/common.py")).read())
    out = ["(* GENERATED by translate_prims.py from %s/src/common.py -- do not edit *)" % REPO,
           "From Coq Require Import ZArith Bool. Open Scope Z_scope.", ""]
    found = set()
    for n in tree.body:
        if isinstance(n, ast.FunctionDef) and n.name in FUNCS:
            kinds = FUNCS[n.name]; params = [a.arg for a in n.args.args]
            if len(params) != len(kinds) or n.args.vararg or n.args.kwarg or n.args.kwonlyargs: refuse(n, "signature changed")
            for d in n.args.defaults:
                if not (isinstance(d, ast.Constant) and isinstance(d.value, int)): refuse(n, "default value")
            body, t = Tr(params, kinds).block(n.body)
            sig = " ".join("(%s:%s)" % (p, "Z*Z" if k == "r" else "Z") for p, k in zip(params, kinds))
            out.append("Definition py_%s %s : %s := %s." % (n.name, sig, {"Z": "Z", "bool": "bool", "ZZ": "Z*Z"}[t], body)); found.add(n.name)
            out.append("(* defaults: %s *)" % ", ".join(ast.unparse(d) for d in n.args.defaults) if n.args.defaults else "")
    missing = set(FUNCS) - found
    if missing: raise Refuse("functions not found: %s" % sorted(missing))
    print("\n".join(l for l in out if l is not None))
if __name__ == "__main__":
    try: main()
    except Refuse as e: sys.stderr.write("TRANSLATOR REFUSES: %s\n" % e); sys.exit(3)
