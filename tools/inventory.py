#!/usr/bin/env python3
"""print a markdown inventory of the property theorem files: per property, the theorem / example names of coq/props/Cxx.v and the
model files they import (transitively inside coq/)"""
import re, os, glob
C = "/verif/coq"
def imports(f, seen):
    for m in re.finditer(r"(?:From IQ(?:\.gen)? Require (?:Import |Export )?|Require Import IQ\.)([A-Za-z0-9_ .]+?)\.\s", open(f).read()):
        for name in m.group(1).split():
            name = name.split(".")[-1]
            for cand in (os.path.join(C, name + ".v"), os.path.join(C, "gen", name + ".v")):
                if os.path.exists(cand) and cand not in seen:
                    seen.add(cand); imports(cand, seen)
    return seen
for f in sorted(glob.glob(C + "/props/C*.v")):
    pid = os.path.basename(f)[:-2]; t = open(f).read()
    names = re.findall(r"^(Theorem|Example|Lemma|Corollary|Fact)\s+([A-Za-z0-9_']+)", t, re.M)
    th = [n for k, n in names if k != "Example"]; ex = [n for k, n in names if k == "Example"]
    deps = sorted(os.path.relpath(x, C) for x in imports(f, set()))
    lines = sum(len(open(os.path.join(C, d)).read().splitlines()) for d in deps)
    print("**%s** — %d theorems, %d examples/witnesses; %d model/proof files, %d lines: %s" % (pid, len(th), len(ex), len(deps), lines, ", ".join("`%s`" % d for d in deps)))
    print()
    print("  " + ", ".join(n.replace(pid + "_", "", 1) for n in th))
    if ex: print("\n  *witnesses / examples:* " + ", ".join(n.replace(pid + "_", "", 1) for n in ex))
    print()
