#!/usr/bin/env python3
"""Confirm a seeded change and run checks against it, isolated from /repo and from the live /verif build.

usage: seedtest.py confirm <dir>            apply <dir>/patch.diff to a scratch worktree of /repo HEAD: test suite must still pass,
                                            <dir>/demo.py must exit 1 with the change and 0 without it
       seedtest.py check <dir> Cxx [Cyy..]  run `./check Cxx --tier quick` from a private copy of /verif with VERIF_REPO=<patched worktree>
Everything lives under /tmp/seed_<name>_* and is removed afterwards."""
import sys, os, subprocess, shutil, json, tempfile, time

def sh(cmd, **kw):
    p = subprocess.run(cmd, stdout=subprocess.PIPE, stderr=subprocess.STDOUT, text=True, **kw)
    return p.returncode, p.stdout

def worktree(name, patch=None):
    wt = tempfile.mkdtemp(prefix="seed_%s_wt_" % name); os.rmdir(wt)
    rc, out = sh(["git", "-C", "/repo", "worktree", "add", "-q", "--detach", wt, "HEAD"])
    assert rc == 0, out
    if patch:
        rc, out = sh(["git", "-C", wt, "apply", patch])
        if rc != 0:
            drop(wt); raise SystemExit("patch does not apply: " + out)
    return wt

def drop(wt):
    sh(["git", "-C", "/repo", "worktree", "remove", "--force", wt]); shutil.rmtree(wt, ignore_errors=True)

def demo(d, tree):
    env = dict(os.environ, PYTHONPATH=tree, PYTHONHASHSEED="0", HOME=tempfile.mkdtemp(prefix="seed_home_"))
    try:
        rc, out = sh(["/venv/bin/python", os.path.join(d, "demo.py")], env=env, cwd=tempfile.gettempdir(), timeout=1200)
    finally:
        shutil.rmtree(env["HOME"], ignore_errors=True)
    return rc, out[-600:]

def confirm(d):
    name = os.path.basename(d.rstrip("/"))
    clean = worktree(name); pat = worktree(name, os.path.join(d, "patch.diff"))
    try:
        rc, out = sh(["/venv/bin/python", "-m", "pytest", "-q", "-p", "no:cacheprovider", "--timeout=900", "--continue-on-collection-errors"], cwd=pat, timeout=1800)
        suite = out.strip().splitlines()[-1]
        rc_p, out_p = demo(d, pat); rc_c, out_c = demo(d, clean)
        res = dict(suite_with_change=suite, suite_ok=("386 passed" in suite), demo_with_change=rc_p, demo_clean=rc_c, demo_tail_changed=out_p[-300:], demo_tail_clean=out_c[-200:])
        res["confirmed"] = res["suite_ok"] and rc_p == 1 and rc_c == 0
        print(json.dumps(res, indent=1)); return res
    finally:
        drop(clean); drop(pat)

def check(d, pids):
    name = os.path.basename(d.rstrip("/"))
    pat = worktree(name, os.path.join(d, "patch.diff"))
    vcopy = tempfile.mkdtemp(prefix="seed_%s_verif_" % name)
    try:
        sh(["rsync", "-a", "--exclude", ".git", "--exclude", "out", "--exclude", "seeded", "/verif/", vcopy + "/"])
        res = {}
        for pid in pids:
            t = time.time()
            rc, out = sh(["./check", pid, "--tier", "quick"], cwd=vcopy, env=dict(os.environ, VERIF_REPO=pat), timeout=3000)
            lines = [l for l in out.splitlines() if l.startswith(("VIOLATION", "KNOWN-FINDING", "OK ", "FAIL "))]
            detail = []
            for l in lines:
                if l.startswith("VIOLATION") and "replay=" in l:
                    p = l.split("replay=")[1].split()[0]
                    try:
                        r = json.load(open(p)); detail.append(dict(key=r.get("key"), what=str(r.get("what") or r.get("no_longer_checks"))[:300], replay=json.dumps(r.get("replay") or r.get("detail"), default=str)[:500]))
                    except Exception as e: detail.append(str(e))
            res[pid] = dict(exit=rc, lines=[l[:200] for l in lines], detail=detail[:6], wall_s=round(time.time() - t))
        print(json.dumps(res, indent=1)); return res
    finally:
        drop(pat); shutil.rmtree(vcopy, ignore_errors=True)

if __name__ == "__main__":
    if sys.argv[1] == "confirm": confirm(sys.argv[2])
    elif sys.argv[1] == "check": check(sys.argv[2], sys.argv[3:])
