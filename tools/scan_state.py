#!/usr/bin/env python3
"""Static scan (Python ast) of isoquant.py and src/*.py for the two kinds of places on which the PARTIAL part of C06 / C10 rests:

  ORDER sites  an object that is a set / frozenset (syntactically or by simple inference, see below), or a container whose element order was
               derived from iterating one, is iterated or order-observed: for-loops, comprehensions, list() / tuple() / enumerate() / iter() /
               zip() / map() / filter() / sum() / str() / repr(), S.pop(), min / max with key=, sep.join(S), unpacking, star arguments, and
               sorted() / .sort() (reported WITH their key, so that a weakened sort key is a different site).
  STATE sites  class-level attributes holding a mutable object or assigned through ClassName.attr / cls.attr, module-level mutable globals
               mutated in a function, `args.<field> = ...` outside the argument preparation of isoquant.py, default arguments that are a
               call or a mutable literal (evaluated once).

A site is identified by (file, enclosing qualified function, what, normalised source of the expression) - never by line number.
Inference of "set-like" (flow-insensitive, per function, iterated to a fixpoint):
  set literals / comprehensions, set() / frozenset(), set operators and methods, names and self.attributes assigned from a set-like value anywhere in the
  function / class, attributes whose NAME is assigned a set-like value in any class, subscripts / .values() / .items() of defaultdict(set)-like
  dictionaries, loop targets over those, functions that return a set-like value (by name), parameters that receive a set-like argument at some
  call site (by callee name).  Containers (names / self.attributes) filled inside a loop over a set-like object are "derived" and treated alike.
The scan is fail-closed in one direction only: it cannot prove absence of order dependence; what it guarantees is that every site it finds on the
current source is compared with the reviewed baseline, so that NEW sites are noticed."""
import ast, os, sys, json, glob

SET_METHODS = {"union", "intersection", "difference", "symmetric_difference", "copy"}
MUTATORS = {"append", "add", "update", "extend", "setdefault", "insert", "appendleft"}
PREP_FUNCS = {"parse_args", "check_and_load_args", "load_previous_run", "save_params", "check_input_params", "check_input_files", "set_data_dependent_options",
              "set_matching_options", "set_splice_correction_options", "set_model_construction_options", "set_configs_directory", "set_additional_params"}
ORDER_CALLS = {"list", "tuple", "enumerate", "iter", "zip", "map", "filter", "sum", "str", "repr", "reversed"}


def src(node):
    try: return ast.unparse(node)
    except Exception: return "<?>"


def key_of(node):
    """a stable name for an assignable / readable place: 'x', 'self.a', 'Cls.a', or None"""
    if isinstance(node, ast.Name): return node.id
    if isinstance(node, ast.Attribute) and isinstance(node.value, ast.Name): return node.value.id + "." + node.attr
    return None


class Module:
    def __init__(self, path, rel):
        self.rel = rel; self.text = open(path).read(); self.tree = ast.parse(self.text)
        for n in ast.walk(self.tree):
            for c in ast.iter_child_nodes(n): c._parent = n


class Scanner:
    def __init__(self, repo):
        self.repo = repo
        # only what isoquant.py imports (transitively) from src/: the stand-alone scripts of src/ (visualisation, short_reads.py, ...) never run in the pipeline
        todo = [os.path.join(repo, "isoquant.py")]; files = []
        while todo:
            f = todo.pop()
            if f in files or not os.path.exists(f): continue
            files.append(f)
            for n in ast.walk(ast.parse(open(f).read())):
                mods = []
                if isinstance(n, ast.ImportFrom):
                    base = n.module or ""
                    if n.level > 0: mods.append(base)
                    elif base == "src": mods += [a.name for a in n.names]
                    elif base.startswith("src."): mods.append(base[4:])
                elif isinstance(n, ast.Import):
                    mods += [a.name[4:] for a in n.names if a.name.startswith("src.")]
                for mname in mods:
                    if mname: todo.append(os.path.join(repo, "src", mname.split(".")[0] + ".py"))
        files = [files[0]] + sorted(files[1:])
        self.skipped = sorted(os.path.relpath(f, repo) for f in glob.glob(os.path.join(repo, "src", "*.py")) if f not in files and os.path.basename(f) != "__init__.py")
        self.mods = [Module(f, os.path.relpath(f, repo)) for f in files]
        self.set_attrs = set()        # attribute names assigned a set-like value somewhere
        self.dos_attrs = set()        # attribute names that are dictionaries of sets
        self.derived_attrs = set()    # attribute names of containers filled while iterating a set-like
        self.set_funcs = set()        # function names returning a set-like value
        self.dos_funcs = set()
        self.set_params = {}          # callee name -> set of parameter names / positions that receive set-like arguments
        self.order = {}; self.state = {}
        self.funcs = []               # (module, qualified name, node, class node or None)
        for m in self.mods: self.collect_funcs(m, m.tree, "", None)

    # ------------------------------------------------------------------ structure
    def collect_funcs(self, m, node, prefix, cls):
        for c in ast.iter_child_nodes(node):
            if isinstance(c, (ast.FunctionDef, ast.AsyncFunctionDef)):
                q = prefix + c.name; self.funcs.append((m, q, c, cls)); self.collect_funcs(m, c, q + ".", cls)
            elif isinstance(c, ast.ClassDef):
                self.collect_funcs(m, c, prefix + c.name + ".", c)
            elif not isinstance(c, (ast.expr,)):
                self.collect_funcs(m, c, prefix, cls)

    def own_nodes(self, fn):
        """nodes of a function body without nested function / class definitions (lambdas included)"""
        out = []
        def rec(n):
            for c in ast.iter_child_nodes(n):
                if isinstance(c, (ast.FunctionDef, ast.AsyncFunctionDef, ast.ClassDef)): continue
                out.append(c); rec(c)
        rec(fn); return out

    # ------------------------------------------------------------------ inference
    def is_dos_ctor(self, e):
        """defaultdict(set) and the like: a dictionary whose values are sets"""
        if isinstance(e, ast.Call) and isinstance(e.func, ast.Name) and e.func.id == "defaultdict" and e.args:
            a = e.args[0]
            if isinstance(a, ast.Name) and a.id in ("set", "frozenset"): return True
            if isinstance(a, ast.Lambda) and self.setlike(a.body, {}): return True
        if isinstance(e, ast.DictComp) and self.setlike(e.value, {}): return True
        return False

    def is_dos(self, e, env):
        if self.is_dos_ctor(e): return True
        k = key_of(e)
        if k and env.get(k) == "dos": return True
        if isinstance(e, ast.Attribute) and e.attr in self.dos_attrs: return True
        if isinstance(e, ast.Call) and isinstance(e.func, (ast.Name, ast.Attribute)):
            name = e.func.id if isinstance(e.func, ast.Name) else e.func.attr
            if name in self.dos_funcs: return True
        return False

    def setlike(self, e, env):
        """'set' for a set-like expression, 'derived' for a container with set-derived order, else None"""
        if isinstance(e, (ast.Set, ast.SetComp)): return "set"
        if isinstance(e, ast.Call):
            f = e.func
            if isinstance(f, ast.Name):
                if f.id in ("set", "frozenset"): return "set"
                if f.id in self.set_funcs: return "set"
                if f.id in ("list", "tuple", "reversed") and e.args and self.setlike(e.args[0], env): return "derived"
            if isinstance(f, ast.Attribute):
                if f.attr in SET_METHODS and self.setlike(f.value, env) == "set": return "set"
                if f.attr in ("values",) and self.is_dos(f.value, env): return None           # a view of sets, not a set
                if f.attr in ("keys", "values", "items") and self.setlike(f.value, env) == "derived": return "derived"
                if f.attr in self.set_funcs: return "set"
                if f.attr == "get" and self.is_dos(f.value, env): return "set"
        if isinstance(e, ast.BinOp) and isinstance(e.op, (ast.BitOr, ast.BitAnd, ast.Sub, ast.BitXor)):
            if self.setlike(e.left, env) == "set" or self.setlike(e.right, env) == "set": return "set"
        if isinstance(e, ast.Subscript) and self.is_dos(e.value, env): return "set"
        if isinstance(e, ast.IfExp):
            return self.setlike(e.body, env) or self.setlike(e.orelse, env)
        k = key_of(e)
        if k and env.get(k) in ("set", "derived"): return env[k]
        if isinstance(e, ast.Attribute):
            if e.attr in self.set_attrs: return "set"
            if e.attr in self.derived_attrs: return "derived"
        return None

    def bind_target(self, target, it, env):
        """loop / comprehension target over iterable `it`: elements of a dictionary of sets are sets"""
        changed = False
        def setk(n, v):
            nonlocal changed
            k = key_of(n)
            if k and env.get(k) != v and not (env.get(k) == "set" and v == "derived"): env[k] = v; changed = True
        if isinstance(it, ast.Call) and isinstance(it.func, ast.Attribute) and self.is_dos(it.func.value, env):
            if it.func.attr == "values": setk(target, "set")
            if it.func.attr == "items" and isinstance(target, ast.Tuple) and len(target.elts) == 2: setk(target.elts[1], "set")
        return changed

    def module_env(self, m):
        if not hasattr(m, "_env"):
            env = {}
            for st in m.tree.body:
                if isinstance(st, ast.Assign):
                    for t in st.targets:
                        if isinstance(t, ast.Name):
                            kind = "dos" if self.is_dos_ctor(st.value) else self.setlike(st.value, env)
                            if kind: env[t.id] = kind
            m._env = env
        return m._env

    def func_env(self, m, q, fn, cls):
        env = dict(self.module_env(m))
        params = [a.arg for a in fn.args.posonlyargs + fn.args.args + fn.args.kwonlyargs]
        cal = fn.name if fn.name != "__init__" or cls is None else cls.name
        for i, p in enumerate(params):
            sp = self.set_params.get(cal, {})
            if p in sp: env[p] = sp[p]
            if (i - (1 if cls is not None and params and params[0] in ("self", "cls") else 0)) in sp: env[p] = sp[i - (1 if cls is not None and params and params[0] in ("self", "cls") else 0)]
        nodes = self.own_nodes(fn)
        for _ in range(4):
            changed = False
            for n in nodes:
                tv = []
                if isinstance(n, ast.Assign): tv = [(t, n.value) for t in n.targets]
                elif isinstance(n, ast.AnnAssign) and n.value is not None: tv = [(n.target, n.value)]
                elif isinstance(n, ast.AugAssign): tv = [(n.target, n.value)] if isinstance(n.op, (ast.BitOr, ast.BitAnd, ast.Sub, ast.BitXor)) else []
                elif isinstance(n, ast.NamedExpr): tv = [(n.target, n.value)]
                for t, v in tv:
                    k = key_of(t)
                    if not k: continue
                    kind = "dos" if self.is_dos_ctor(v) or (self.is_dos(v, env) and not isinstance(v, ast.Subscript)) else self.setlike(v, env)
                    if kind and env.get(k) != kind and not (env.get(k) == "set" and kind == "derived"): env[k] = kind; changed = True
                if isinstance(n, (ast.For, ast.AsyncFor)): changed |= self.bind_target(n.target, n.iter, env)
                if isinstance(n, ast.comprehension): changed |= self.bind_target(n.target, n.iter, env)
                # containers filled while iterating a set-like object
                if isinstance(n, (ast.For, ast.AsyncFor)) and self.setlike(n.iter, env):
                    for b in ast.walk(n):
                        cont = None
                        if isinstance(b, ast.Call) and isinstance(b.func, ast.Attribute) and b.func.attr in MUTATORS: cont = b.func.value
                        if isinstance(b, (ast.Assign, ast.AugAssign)):
                            for t in (b.targets if isinstance(b, ast.Assign) else [b.target]):
                                if isinstance(t, ast.Subscript): cont = t.value
                        while isinstance(cont, ast.Subscript): cont = cont.value
                        k = key_of(cont) if cont is not None else None
                        if k and env.get(k) not in ("set", "derived", "dos"): env[k] = "derived"; changed = True
                if isinstance(n, (ast.ListComp, ast.DictComp, ast.GeneratorExp)) and any(self.setlike(g.iter, env) for g in n.generators):
                    p = getattr(n, "_parent", None)
                    if isinstance(p, ast.Assign):
                        for t in p.targets:
                            k = key_of(t)
                            if k and env.get(k) not in ("set", "derived", "dos") and not self.wrapped_sorted(n): env[k] = "derived"; changed = True
            if not changed: break
        return env

    def wrapped_sorted(self, n):
        p = getattr(n, "_parent", None)
        return isinstance(p, ast.Call) and isinstance(p.func, ast.Name) and p.func.id == "sorted"

    def global_pass(self):
        """attribute names, returning functions and parameters that are set-like, to a fixpoint"""
        for _ in range(5):
            before = (len(self.set_attrs), len(self.dos_attrs), len(self.derived_attrs), len(self.set_funcs), len(self.dos_funcs), sum(len(v) for v in self.set_params.values()))
            for m in self.mods:
                for c in ast.walk(m.tree):
                    if isinstance(c, ast.ClassDef):
                        for s in c.body:
                            if isinstance(s, ast.Assign):
                                for t in s.targets:
                                    if isinstance(t, ast.Name):
                                        if self.is_dos_ctor(s.value): self.dos_attrs.add(t.id)
                                        elif self.setlike(s.value, {}) == "set": self.set_attrs.add(t.id)
            for m, q, fn, cls in self.funcs:
                env = self.func_env(m, q, fn, cls)
                for k, v in env.items():
                    if "." in k and k.split(".")[0] in ("self", "cls"):
                        {"set": self.set_attrs, "dos": self.dos_attrs, "derived": self.derived_attrs}[v].add(k.split(".")[1])
                for n in self.own_nodes(fn):
                    if isinstance(n, ast.Return) and n.value is not None:
                        if self.is_dos(n.value, env): self.dos_funcs.add(fn.name)
                        elif self.setlike(n.value, env) == "set": self.set_funcs.add(fn.name)
                    if isinstance(n, ast.Call):
                        name = n.func.id if isinstance(n.func, ast.Name) else n.func.attr if isinstance(n.func, ast.Attribute) else None
                        if not name or name in ("set", "frozenset", "list", "sorted", "len", "print"): continue
                        for i, a in enumerate(n.args):
                            kind = "dos" if self.is_dos(a, env) and not isinstance(a, ast.Subscript) else self.setlike(a, env)
                            if kind: self.set_params.setdefault(name, {})[i] = kind
                        for kw in n.keywords:
                            if kw.arg:
                                kind = "dos" if self.is_dos(kw.value, env) and not isinstance(kw.value, ast.Subscript) else self.setlike(kw.value, env)
                                if kind: self.set_params.setdefault(name, {})[kw.arg] = kind
            after = (len(self.set_attrs), len(self.dos_attrs), len(self.derived_attrs), len(self.set_funcs), len(self.dos_funcs), sum(len(v) for v in self.set_params.values()))
            if after == before: break

    # ------------------------------------------------------------------ order sites
    def add_order(self, m, q, what, node, origin):
        k = (m.rel, q, what, src(node))
        e = self.order.setdefault(k, dict(file=m.rel, func=q, what=what, expr=src(node), origin=origin, count=0, lines=[]))
        e["count"] += 1; e["lines"].append(getattr(node, "lineno", 0))

    def scan_order(self):
        for m, q, fn, cls in self.funcs + [(m, "<module>", m.tree, None) for m in self.mods]:
            env = self.func_env(m, q, fn, cls) if q != "<module>" else dict(self.module_env(m))
            nodes = self.own_nodes(fn) if q != "<module>" else [n for n in self.own_nodes(fn)]
            for n in nodes:
                if isinstance(n, (ast.For, ast.AsyncFor)):
                    o = self.setlike(n.iter, env)
                    if o: self.add_order(m, q, "for", ast.parse("for %s in %s: pass" % (src(n.target), src(n.iter))).body[0].iter if False else n.iter, o)
                elif isinstance(n, ast.comprehension):
                    o = self.setlike(n.iter, env)
                    if o:
                        p = getattr(n, "_parent", None)
                        what = "comprehension" if not isinstance(p, ast.SetComp) and not self.wrapped_sorted(p) and not self.order_free_consumer(p) else None
                        if what: self.add_order(m, q, what, p, o)
                elif isinstance(n, ast.Call):
                    f = n.func
                    if isinstance(f, ast.Name) and f.id in ("hash", "id"):
                        self.add_order(m, q, f.id + "() (seed / address dependent value)", n, "hash")
                    if (isinstance(f, ast.Attribute) and f.attr in ("glob", "iglob", "listdir", "scandir", "walk") and src(f.value) in ("glob", "os")) or (isinstance(f, ast.Name) and f.id in ("listdir", "scandir")):
                        self.add_order(m, q, "file system enumeration", n, "os")
                    if isinstance(f, ast.Name) and f.id in ORDER_CALLS:
                        for a in n.args:
                            o = self.setlike(a, env)
                            if o and not (f.id in ("list", "tuple") and (self.wrapped_sorted(n) or self.order_free_consumer(n))): self.add_order(m, q, f.id + "()", n, o)
                    elif isinstance(f, ast.Name) and f.id == "sorted" and n.args:
                        o = self.setlike(n.args[0], env) or self.comp_over_set(n.args[0], env)
                        if o: self.add_order(m, q, "sorted()", n, o)
                    elif isinstance(f, ast.Name) and f.id in ("min", "max") and n.args and any(k.arg == "key" for k in n.keywords):
                        o = self.setlike(n.args[0], env) or self.comp_over_set(n.args[0], env)
                        if o: self.add_order(m, q, f.id + "(key=)", n, o)
                    elif isinstance(f, ast.Name) and f.id == "next" and n.args and isinstance(n.args[0], ast.Call) and isinstance(n.args[0].func, ast.Name) and n.args[0].func.id == "iter":
                        pass                                                                       # reported through iter()
                    elif isinstance(f, ast.Attribute):
                        if f.attr == "join" and n.args:
                            o = self.setlike(n.args[0], env) or self.comp_over_set(n.args[0], env)
                            if o: self.add_order(m, q, "join()", n, o)
                        elif f.attr == "pop" and not n.args and self.setlike(f.value, env) == "set": self.add_order(m, q, "pop()", n, "set")
                        elif f.attr == "sort" and self.setlike(f.value, env) == "derived": self.add_order(m, q, "sort()", n, "derived")
                        elif f.attr in ("extend",) and n.args and self.setlike(n.args[0], env) and self.setlike(f.value, env) != "set":
                            self.add_order(m, q, "extend()", n, self.setlike(n.args[0], env))
                    for a in n.args:
                        if isinstance(a, ast.Starred) and self.setlike(a.value, env): self.add_order(m, q, "star-argument", n, self.setlike(a.value, env))
                elif isinstance(n, ast.BinOp) and isinstance(n.op, ast.Mod) and isinstance(n.left, (ast.Constant, ast.JoinedStr)):
                    for a in (n.right.elts if isinstance(n.right, ast.Tuple) else [n.right]):
                        if self.setlike(a, env): self.add_order(m, q, "% formatting", n, self.setlike(a, env))
                elif isinstance(n, ast.FormattedValue) and self.setlike(n.value, env):
                    self.add_order(m, q, "f-string", n.value, self.setlike(n.value, env))
                elif isinstance(n, ast.Assign) and any(isinstance(t, (ast.Tuple, ast.List)) for t in n.targets):
                    o = self.setlike(n.value, env)
                    if o: self.add_order(m, q, "unpacking", n, o)
                elif isinstance(n, ast.Subscript) and isinstance(n.value, ast.Call) and isinstance(n.value.func, ast.Name) and n.value.func.id in ("list", "tuple"):
                    pass                                                                           # list(S)[0]: reported through list()

    def comp_over_set(self, e, env):
        if isinstance(e, (ast.ListComp, ast.GeneratorExp)):
            for g in e.generators:
                o = self.setlike(g.iter, env)
                if o: return o
        return None

    def order_free_consumer(self, n):
        """the value is consumed by something whose result does not depend on the order: set(), frozenset(), len(), any(), all(), sorted(), min / max without key, `in`"""
        p = getattr(n, "_parent", None)
        if isinstance(p, ast.Call) and isinstance(p.func, ast.Name):
            if p.func.id in ("set", "frozenset", "len", "any", "all", "sorted", "Counter"): return True
            if p.func.id in ("min", "max") and not any(k.arg == "key" for k in p.keywords): return True
        if isinstance(p, ast.Call) and isinstance(p.func, ast.Attribute) and p.func.attr in ("update", "intersection", "union", "difference", "issubset", "issuperset", "isdisjoint", "intersection_update", "difference_update") \
                and n in p.args: return True
        if isinstance(p, ast.Compare) and n in p.comparators and all(isinstance(o, (ast.In, ast.NotIn)) for o in p.ops): return True
        return False

    # ------------------------------------------------------------------ state sites
    def add_state(self, m, q, what, expr, node=None):
        k = (m.rel, q, what, expr)
        e = self.state.setdefault(k, dict(file=m.rel, func=q, what=what, expr=expr, count=0, lines=[])); e["count"] += 1
        if node is not None: e["lines"].append(getattr(node, "lineno", 0))

    @staticmethod
    def mutable_value(v):
        if isinstance(v, (ast.List, ast.Dict, ast.Set, ast.ListComp, ast.DictComp, ast.SetComp)): return True
        if isinstance(v, ast.Call):
            name = v.func.id if isinstance(v.func, ast.Name) else v.func.attr if isinstance(v.func, ast.Attribute) else ""
            return name not in ("namedtuple", "getLogger", "compile", "frozenset", "tuple", "int", "float", "str", "len", "join", "format", "abspath", "dirname")
        return False

    def scan_state(self):
        class_names = set(c.name for m in self.mods for c in ast.walk(m.tree) if isinstance(c, ast.ClassDef))
        class_attrs = {}
        for m in self.mods:
            for c in ast.walk(m.tree):
                if not isinstance(c, ast.ClassDef): continue
                is_enum = any((isinstance(b, ast.Name) and b.id in ("Enum", "IntEnum")) or (isinstance(b, ast.Attribute) and b.attr in ("Enum", "IntEnum")) for b in c.bases)
                for s in c.body:
                    tv = [(t, s.value) for t in s.targets] if isinstance(s, ast.Assign) else [(s.target, s.value)] if isinstance(s, ast.AnnAssign) and s.value is not None else []
                    for t, v in tv:
                        if isinstance(t, ast.Name):
                            class_attrs[(c.name, t.id)] = (m, v)
                            if not is_enum and self.mutable_value(v): self.add_state(m, c.name, "class attribute (mutable value)", "%s = %s" % (t.id, src(v)), s)
            # module-level mutable globals
            mod_mut = {}
            for s in m.tree.body:
                if isinstance(s, ast.Assign) and self.mutable_value(s.value):
                    for t in s.targets:
                        if isinstance(t, ast.Name): mod_mut[t.id] = src(s.value)
            for mm, q, fn, cls in self.funcs:
                if mm is not m: continue
                nodes = self.own_nodes(fn)
                local = set(a.arg for a in fn.args.posonlyargs + fn.args.args + fn.args.kwonlyargs)
                globs = set(x for n in nodes if isinstance(n, ast.Global) for x in n.names)
                for n in nodes:
                    if isinstance(n, (ast.Assign, ast.AnnAssign, ast.AugAssign)):
                        for t in (n.targets if isinstance(n, ast.Assign) else [n.target]):
                            if isinstance(t, ast.Name) and t.id not in globs: local.add(t.id)
                for n in nodes:
                    targets = n.targets if isinstance(n, ast.Assign) else [n.target] if isinstance(n, (ast.AugAssign, ast.AnnAssign)) else []
                    for t in targets:
                        # ClassName.attr = ... / cls.attr = ...
                        if isinstance(t, ast.Attribute) and isinstance(t.value, ast.Name) and (t.value.id in class_names or t.value.id == "cls"):
                            self.add_state(m, q, "class attribute assigned", src(n), n)
                        # args.<field> = ...
                        base = t
                        while isinstance(base, ast.Subscript): base = base.value
                        if isinstance(base, ast.Attribute):
                            owner = base.value
                            if isinstance(owner, ast.Attribute) and owner.attr == "__dict__": owner = owner.value
                            is_args = (isinstance(owner, ast.Name) and owner.id in ("args", "params")) or (isinstance(owner, ast.Attribute) and owner.attr in ("args", "params"))
                            if is_args and not (m.rel == "isoquant.py" and q.split(".")[0] in PREP_FUNCS):
                                self.add_state(m, q, "args field assigned", "%s.%s" % (src(owner), base.attr), n)
                        # module-level mutable global mutated
                        b2 = t
                        while isinstance(b2, (ast.Subscript, ast.Attribute)): b2 = b2.value
                        if isinstance(b2, ast.Name) and b2.id in mod_mut and (b2.id in globs or (b2.id not in local and b2 is not t)):
                            self.add_state(m, q, "module global mutated", "%s (= %s)" % (b2.id, mod_mut[b2.id]), n)
                        if isinstance(t, ast.Name) and t.id in globs: self.add_state(m, q, "module global assigned", t.id, n)
                    if isinstance(n, ast.Call) and isinstance(n.func, ast.Attribute) and n.func.attr in MUTATORS | {"pop", "clear", "remove", "discard", "popitem", "increment"}:
                        b2 = n.func.value
                        while isinstance(b2, (ast.Subscript, ast.Attribute)): b2 = b2.value
                        if isinstance(b2, ast.Name) and b2.id in mod_mut and b2.id not in local:
                            self.add_state(m, q, "module global mutated", "%s (= %s)" % (b2.id, mod_mut[b2.id]), n)
                        if isinstance(n.func.value, ast.Name) and n.func.value.id == "setattr": pass
                    if isinstance(n, ast.Call) and isinstance(n.func, ast.Name) and n.func.id == "setattr" and n.args and src(n.args[0]).split(".")[-1] in ("args", "params"):
                        self.add_state(m, q, "args field assigned", src(n), n)
                # defaults evaluated once
                for d in fn.args.defaults + [d for d in fn.args.kw_defaults if d is not None]:
                    if self.mutable_value(d) or isinstance(d, (ast.Call,)): self.add_state(m, q, "default argument evaluated once", src(d), d)
        # class-level attributes (of any value) that are assigned through the class somewhere
        for (m_rel, q, what, expr), e in list(self.state.items()):
            pass

    def run(self):
        self.global_pass(); self.scan_order(); self.scan_state()
        order = sorted(self.order.values(), key=lambda e: (e["file"], e["func"], e["what"], e["expr"]))
        state = sorted(self.state.values(), key=lambda e: (e["file"], e["func"], e["what"], e["expr"]))
        return dict(order=order, state=state, files=[m.rel for m in self.mods], not_imported=self.skipped, inferred=dict(set_attributes=sorted(self.set_attrs), dict_of_set_attributes=sorted(self.dos_attrs), derived_attributes=sorted(self.derived_attrs),
                                                           set_returning_functions=sorted(self.set_funcs), set_parameters={k: {str(a): b for a, b in v.items()} for k, v in sorted(self.set_params.items())}))


def site_key(e): return "%s | %s | %s | %s" % (e["file"], e["func"], e["what"], e["expr"])


def scan(repo): return Scanner(repo).run()


if __name__ == "__main__":
    r = scan(sys.argv[1] if len(sys.argv) > 1 else "/repo")
    if len(sys.argv) > 2: json.dump(r, open(sys.argv[2], "w"), indent=1)
    print("order sites: %d, state sites: %d" % (len(r["order"]), len(r["state"])))
