#!/usr/bin/env python3
"""Fail-closed translation of a FOLD FRAGMENT and a WHILE FRAGMENT of Python into Gallina (coq/gen/Loops.v).

   A. FOLD FRAGMENT (functions / methods with ONE `for` loop, or loop-free).  Accepted shape (anything else is refused with a message naming
      the construct):
     [assert <cond>]*                                 -> conjuncts of py_<f>_pre; `assert len(a) == len(b)` also records the equal length
     [if <cond>: <parameter> = <expr>]*               -> parameter normalisations (the application of defaults), shadowing lets in front;
                                                         an `Optional pair = None` parameter becomes a pair by `if p is None: p = (a, b)`
     [if <cond>: return <expr>]*                      -> guards in front of everything else
     [acc = [] | n = <expr of parameters> | acc = [c for i in range(len(l))]]*     -> accumulators (state of the fold, in this order)
     ONE loop, optionally wrapped in `if <cond>:` without else:
         for x in <list parameter>                                  -> fold_left over the list
         for i in range(len(l)) / range(0, len(l)) / range(len(l) - k) / range(0, len(l) - k)    -> fold_left over seq 0 (length l - k), i : nat
         for i in range(<e>)                                        -> fold_left over seq 0 (Z.to_nat e), i : nat
         for i in range(<a>, <b>) / range(*<pair>)                  -> fold_left over map (fun k => a + k) (seq 0 (b - a)), i : Z
         for i in range(<a>, <b>, -1)                               -> fold_left over map (fun k => a - k) (seq 0 (a - b)), i : Z
       body: straight-line code: `acc.append(e)`, `n += e`, `n -= e`, re-assignment of a scalar accumulator, `acc[i] = v` on a list accumulator
             at an index in range by construction, fresh temporaries, if/elif/else; among the TOP-LEVEL statements of the body also
             `if <cond>: break` (a `stopped` flag in the state), `if <cond>: return <expr>` (an `option` result in the state) and
             `if <cond>: continue`; `continue` elsewhere only as the LAST statement of a path through the body (where it is a no-op)
     [straight-line post-processing] return <expr>  |  raise ... (after a loop that returns from inside: py_<f>_pre says that it does)
   plus the one-liner `return list(map(lambda x: <expr>, <list parameter>))`.
   Expressions: integers, pairs, lists of them; + - * comparisons (chained), and / or / not (short-circuit respected in the conditions),
     min max abs, len(l), l1 + l2, [e1, ...], `x in l` / `x not in l` and `l.index(x)` for integer lists, `p is None`, float(x) / float(y)
     (an exact rational), calls of already translated functions and methods (their py_<g>_pre becomes a condition).
   Methods: `self.<a>.<b>` reads and attribute reads of object parameters are parameters of the generated function when DECLARED in TARGETS;
     any other attribute read, and every attribute write, is refused.  Default arguments (integer literals, None for an optional pair): the
     generated py_<f> has all parameters, py_<f>_dflt applies the defaults.
   List indexing: `l[i + c]` with i the loop index is translated to `nth (i + c) l dflt` only when it is in range BY CONSTRUCTION:
     under range(len(m) - k) with 0 <= c <= k and l = m or `assert len(l) == len(m)`.
   Every other subscript of a list is translated to Python's indexing with wrap-around, `py_index l e dflt`, and the condition
   -len(l) <= e < len(l) is added to py_<f>_pre, branch-sensitively (for a subscript inside the loop: for every iteration; this is stronger
   than what Python needs when the loop exits early, never weaker).  Under py_<f>_pre no exception is possible.
   `math.inf` / `-math.inf` as a tuple component is translated to an extra integer parameter `inf_k` of the function (the bridge
   lemma has to hold for EVERY value of it, i.e. the result may not depend on it); it is refused anywhere else.

   B. WHILE FRAGMENT (class WFn): functions with `while` loops, translated in CHECKED form.  The result is a `py_run`: py_Done v,
      py_OutOfFuel, or py_Raises k as soon as a subscript is out of range (k = 1), an assert fails (3), a float division has a zero
      divisor (4), .index() finds nothing (5).  Every `while <cond>:` becomes `Fixpoint py_<f>_loop<n> ... (fuel_ : nat) (st_ : S) : py_run S`
      whose state is the tuple of ALL local variables defined so far; the generated function takes the fuel as its first parameter (the
      bridge lemma chooses it).  Loop body: assignments (also to temporaries), += / -=, append, `l[i] = v` (checked), assert, if/elif/else,
      an optional FIRST statement `if <cond>: break`; no continue, no return, no nested loop.  Around the loops: assignments, asserts,
      if/elif/else (with returns), logging-only ifs are dropped, several loops in sequence are allowed.

   Integers are Z, pairs are Z * Z, lists are `list`; operators are printed by name (no dependence on notation scopes)."""
import ast, sys, os
sys.argv = sys.argv[:]            # the two imported translators read argv[1] as the repository
import translate_extra as X
import translate_prims as P
from translate_extra import Refuse, refuse, strip, dotted, coq_ident, zlit
REPO = X.REPO

COQT = {"Z": "Z", "bool": "bool", "ZZ": "(Z * Z)", "LZ": "(list Z)", "LZZ": "(list (Z * Z))", "idx": "nat", "Q": "Q", "OZZ": "(option (Z * Z))"}
ELEM = {"LZ": "Z", "LZZ": "ZZ"}
LISTOF = {"Z": "LZ", "ZZ": "LZZ"}
DFLT = {"Z": "(0)%Z", "ZZ": "((0)%Z, (0)%Z)"}
SUPPORT = ["Definition py_index {A} (l:list A) (i:Z) (d:A) : A := nth (Z.to_nat (if Z.ltb i 0 then Z.add (Z.of_nat (length l)) i else i)) l d.",
           "Definition py_index_ok {A} (l:list A) (i:Z) : bool := andb (Z.leb (Z.opp (Z.of_nat (length l))) i) (Z.ltb i (Z.of_nat (length l))).",
           "(* l[i] = v *)",
           "Definition py_set {A} (l:list A) (i:Z) (v:A) : list A := let k := Z.to_nat (if Z.ltb i 0 then Z.add (Z.of_nat (length l)) i else i) in app (firstn k l) (cons v (skipn (Datatypes.S k) l)).",
           "(* l.index(x): position of the first occurrence (ValueError when there is none: condition existsb (Z.eqb x) l) *)",
           "Fixpoint py_list_index (l:list Z) (x:Z) : Z := match l with nil => (0)%Z | cons y t => if Z.eqb y x then (0)%Z else Z.add (1)%Z (py_list_index t x) end.",
           "(* outcome of code with a `while` loop: a value, fuel exhausted, or an exception class (1 IndexError, 3 AssertionError, 4 ZeroDivisionError, 5 ValueError) *)",
           "Inductive py_run (S:Type) : Type := py_Done (s:S) | py_OutOfFuel | py_Raises (k:N).",
           "Arguments py_Done {S} s. Arguments py_OutOfFuel {S}. Arguments py_Raises {S} k.",
           "Definition py_bind {S T} (r:py_run S) (f:S -> py_run T) : py_run T := match r with py_Done s => f s | py_OutOfFuel => py_OutOfFuel | py_Raises k => py_Raises k end."]


class LE(X.Tr):
    """expressions of the loop fragment; env: name -> (coq, type)"""
    def __init__(self, env, known):
        X.Tr.__init__(self, env, {}, ())
        self.known = known                  # translated functions callable from here: name -> (coq name, [param types], result type, extra leading args)
        self.loop = None                    # dict(kind, var, base, k)
        self.samelen = []                   # list of sets of list names asserted to have equal length
        self.cur = []                       # index / assert conditions collected for the code being translated (coq bools), branch-sensitive
        self.in_loop = False
        self.locals = set()                 # temporaries and accumulators: no collected condition may mention them
        self.codes = {}                     # condition text -> exception class (default 1 = IndexError)
        self.infs = []                      # names of the integer parameters standing for +-math.inf
    def add(self, cond, code=1):
        self.cur.append(cond); self.codes.setdefault(cond, code)
    def take(self):
        """the conditions collected since the last take(): [(cond, code)] without repetitions"""
        out = []
        for c in self.cur:
            if c != "true" and c not in [x for x, _ in out]: out.append((c, self.codes.get(c, 1)))
        self.cur = []
        return out
    def sub(self, f):
        """translate with a private condition list -> (result, conjunction, code)"""
        saved = self.cur; self.cur = []
        r = f(); mine = self.take(); self.cur = saved
        codes = set(k for _, k in mine)
        if len(codes) > 1: raise Refuse("conditions of different exception classes inside one short-circuit / conditional expression")
        return r, conj([c for c, _ in mine]), (codes.pop() if codes else 1)
    def same_length(self, a, b):
        cl = {a}; grown = True
        while grown:
            grown = False
            for s_ in self.samelen:
                if cl & s_ and not s_ <= cl: cl |= s_; grown = True
        return b in cl
    def index_by_construction(self, lst, idx):
        """(nat expression) when lst[idx] is in range by construction, else None"""
        lp = self.loop
        if not (self.in_loop and lp and lp["kind"] == "range_len"): return None
        c = None
        if isinstance(idx, ast.Name) and idx.id == lp["var"]: c = 0
        elif (isinstance(idx, ast.BinOp) and isinstance(idx.op, ast.Add) and isinstance(idx.left, ast.Name) and idx.left.id == lp["var"]
              and isinstance(idx.right, ast.Constant) and isinstance(idx.right.value, int) and not isinstance(idx.right.value, bool)): c = idx.right.value
        if c is None or not (0 <= c <= lp["k"]) or not self.same_length(lst, lp["base"]): return None
        v = coq_ident(lp["var"])
        return v if c == 0 else "(Nat.add %s %d%%nat)" % (v, c)
    def expr(self, n):
        if isinstance(n, ast.Name) and n.id in self.env and self.env[n.id][1] == "idx":
            return ("(Z.of_nat %s)" % self.env[n.id][0], "Z")
        if isinstance(n, ast.Call) and isinstance(n.func, ast.Name) and n.func.id == "len" and len(n.args) == 1 and not n.keywords:
            a, t = self.expr(n.args[0])
            if t not in ELEM: refuse(n, "len() of a non-list")
            return ("(Z.of_nat (length %s))" % a, "Z")
        if isinstance(n, ast.Subscript):
            if isinstance(n.slice, ast.Slice): refuse(n, "slice")
            v, t = self.expr(n.value)
            if t in ELEM:
                et = ELEM[t]
                if isinstance(n.value, ast.Name):
                    nat = self.index_by_construction(n.value.id, n.slice)
                    if nat is not None: return ("(nth %s %s %s)" % (nat, v, DFLT[et]), et)
                i, ti = self.expr(n.slice)
                if ti != "Z": refuse(n, "list index is not an integer")
                self.add("(py_index_ok %s %s)" % (v, i), 1)
                return ("(py_index %s %s %s)" % (v, i, DFLT[et]), et)
            return X.Tr.expr(self, n)
        if isinstance(n, ast.Tuple):
            if len(n.elts) != 2: refuse(n, "tuple that is not a pair")
            parts = []
            for e in n.elts:
                d = dotted(e.operand) if isinstance(e, ast.UnaryOp) and isinstance(e.op, ast.USub) else dotted(e)
                if d == "math.inf":
                    nm = "inf_%d" % len(self.infs); self.infs.append(nm); parts.append(nm); continue
                a, t = self.expr(e)
                if t != "Z": refuse(n, "pair of non-integers")
                parts.append(a)
            return ("(%s, %s)" % tuple(parts), "ZZ")
        if isinstance(n, ast.List):
            if not n.elts: refuse(n, "empty list literal outside an accumulator initialisation")
            parts = [self.expr(e) for e in n.elts]
            if len(set(t for _, t in parts)) != 1 or parts[0][1] not in LISTOF: refuse(n, "list literal of mixed / unsupported element type")
            acc = "nil"
            for a, _ in reversed(parts): acc = "(cons %s %s)" % (a, acc)
            return (acc, LISTOF[parts[0][1]])
        if isinstance(n, ast.BinOp) and isinstance(n.op, ast.Add):
            a, ta = self.expr(n.left)
            if ta in ELEM:
                b, tb = self.expr(n.right)
                if tb != ta: refuse(n, "concatenation of lists of different type")
                return ("(app %s %s)" % (a, b), ta)
        if isinstance(n, ast.Call) and isinstance(n.func, ast.Name) and n.func.id in self.known and not n.keywords:
            return self.call(n, n.func.id)
        if isinstance(n, ast.BoolOp):
            # short-circuit: the conditions of a later operand are needed only when the earlier ones do not decide
            f = "andb" if isinstance(n.op, ast.And) else "orb"
            acc = None
            for v in n.values:
                (p, t), c, k = self.sub(lambda v=v: self.expr(v))
                if t != "bool": refuse(n, "and/or on non-bool (truthiness is not modelled)")
                if c != "true":
                    self.add(c if acc is None else ("(if %s then %s else true)" % (acc, c) if f == "andb" else "(if %s then true else %s)" % (acc, c)), k)
                acc = p if acc is None else "(%s %s %s)" % (f, acc, p)
            return (acc, "bool")
        if isinstance(n, ast.Compare) and len(n.ops) == 1 and isinstance(n.ops[0], (ast.In, ast.NotIn)):
            a, ta = self.expr(n.left); l, tl = self.expr(n.comparators[0])
            if ta != "Z" or tl != "LZ": refuse(n, "membership test other than <integer> in <list of integers>")
            c = "(existsb (Z.eqb %s) %s)" % (a, l)
            return ("(negb %s)" % c if isinstance(n.ops[0], ast.NotIn) else c, "bool")
        if isinstance(n, ast.Compare) and len(n.ops) == 1 and isinstance(n.ops[0], (ast.Is, ast.IsNot)) and isinstance(n.comparators[0], ast.Constant) and n.comparators[0].value is None:
            a, ta = self.expr(n.left)
            if ta != "OZZ": refuse(n, "`is None` on something that is not an optional pair parameter")
            c = "(match %s with None => true | Some _ => false end)" % a
            return ("(negb %s)" % c if isinstance(n.ops[0], ast.IsNot) else c, "bool")
        if isinstance(n, ast.Call) and isinstance(n.func, ast.Attribute) and n.func.attr == "index" and len(n.args) == 1 and not n.keywords:
            l, tl = self.expr(n.func.value); a, ta = self.expr(n.args[0])
            if tl != "LZ" or ta != "Z": refuse(n, ".index() other than <list of integers>.index(<integer>)")
            self.add("(existsb (Z.eqb %s) %s)" % (a, l), 5)
            return ("(py_list_index %s %s)" % (l, a), "Z")
        if isinstance(n, ast.ListComp):
            # [c for i in range(len(l))] with c not mentioning i: a constant list of the length of l
            g = n.generators
            if len(g) != 1 or g[0].ifs or g[0].is_async or not isinstance(g[0].target, ast.Name): refuse(n, "list comprehension with several generators / conditions")
            it = g[0].iter
            if not (isinstance(it, ast.Call) and dotted(it.func) == "range" and len(it.args) == 1 and not it.keywords and isinstance(it.args[0], ast.Call) and dotted(it.args[0].func) == "len" and len(it.args[0].args) == 1):
                refuse(n, "list comprehension over something other than range(len(l))")
            if any(isinstance(x, ast.Name) and x.id == g[0].target.id for x in ast.walk(n.elt)): refuse(n, "list comprehension whose element depends on the index")
            l, tl = self.expr(it.args[0].args[0]); e, te = self.expr(n.elt)
            if tl not in ELEM or te not in LISTOF: refuse(n, "list comprehension of unsupported type")
            return ("(repeat %s (length %s))" % (e, l), LISTOF[te])
        if isinstance(n, ast.BinOp) and isinstance(n.op, ast.Div):
            a, ta = self.expr(n.left); b, tb = self.expr(n.right)
            if ta != "Q" or tb != "Q": refuse(n, "division other than float(...) / float(...)")
            self.add("(negb (Qeq_bool %s (inject_Z (0)%%Z)))" % b, 4)
            return ("(Qdiv %s %s)" % (a, b), "Q")
        if isinstance(n, ast.Call) and isinstance(n.func, ast.Attribute) and dotted(n.func) in self.known and not n.keywords:
            return self.call(n, dotted(n.func))
        if isinstance(n, ast.Compare):
            terms = [n.left] + n.comparators; cs = []
            for x, op, y in zip(terms, n.ops, terms[1:]):
                a, ta = self.expr(x); b, tb = self.expr(y)
                if ta != "Z" or tb != "Z": refuse(n, "comparison of %s with %s (only integers are compared)" % (ta, tb))
                f = {ast.Lt: "Z.ltb", ast.LtE: "Z.leb", ast.Gt: "Z.gtb", ast.GtE: "Z.geb", ast.Eq: "Z.eqb", ast.NotEq: "Z.eqb"}.get(type(op))
                if f is None: refuse(n, "comparison operator other than < <= > >= == != (`in`, `is` are not translated)")
                c = "(%s %s %s)" % (f, a, b)
                cs.append("(negb %s)" % c if isinstance(op, ast.NotEq) else c)
            acc = cs[0]
            for c in cs[1:]: acc = "(andb %s %s)" % (acc, c)
            return (acc, "bool")
        if isinstance(n, ast.Attribute) and dotted(n) == "math.inf": refuse(n, "math.inf outside a pair")
        return X.Tr.expr(self, n)


    def call(self, n, key):
        cname, ptypes, rt, extra = self.known[key][:4]
        selfargs = self.known[key][4] if len(self.known[key]) > 4 else []
        prename = self.known[key][5] if len(self.known[key]) > 5 else None
        if len(n.args) != len(ptypes): refuse(n, "call with another number of arguments (defaults are not modelled)")
        args = []
        for a, want in zip(n.args, ptypes):
            c, t = self.expr(a)
            if t != want: refuse(n, "argument of type %s where %s is expected" % (t, want))
            args.append(c)
        ex = []
        for _ in range(extra):
            nm = "inf_%d" % len(self.infs); self.infs.append(nm); ex.append(nm)
        for sa in selfargs:
            if sa not in [v[0] for v in self.attrs.values()]: refuse(n, "call of a method that reads self.%s, which the caller does not declare" % sa)
        allargs = " ".join(ex + list(selfargs) + args)
        if prename: self.add("(%s %s)" % (prename, allargs), 1)
        return ("(%s %s)" % (cname, allargs), rt)
    def branches(self, c, fa, fb):
        """translate the two branches of `if c` with their own condition lists; the conditions become (if c then .. else ..)"""
        saved = self.cur
        self.cur = []; a = fa(); ca = conj(self.cur)
        self.cur = []; b = fb(); cb = conj(self.cur)
        self.cur = saved
        if ca != "true" or cb != "true": self.cur.append("(if %s then %s else %s)" % (c, ca, cb))
        return a, b
    def block(self, stmts):
        """straight-line statements that return on every path -> (coq, type); as translate_extra.Tr.block, with branch-sensitive conditions"""
        stmts = strip(stmts)
        if not stmts: raise Refuse("a path falls off the end of the function (implicit None)")
        s, rest = stmts[0], stmts[1:]
        if isinstance(s, ast.Return):
            if s.value is None: refuse(s, "bare return")
            if rest: refuse(rest[0], "statement after return")
            return self.expr(s.value)
        if isinstance(s, ast.Assign) and len(s.targets) == 1 and isinstance(s.targets[0], ast.Name):
            v, t = self.expr(s.value); name = s.targets[0].id
            if name in self.env and (self.env[name][1] != t or t in ELEM or self.env[name][0] != coq_ident(name)): refuse(s, "re-assignment of a name with another type / of a list / of the loop variable")
            saved = dict(self.env)
            if name not in self.env: self.locals.add(name)
            self.env[name] = (coq_ident(name), t)
            body, tb = self.block(rest); self.env = saved
            return ("(let %s := %s in %s)" % (coq_ident(name), v, body), tb)
        if isinstance(s, ast.If):
            c, tc = self.expr(s.test)
            if tc != "bool": refuse(s, "if on a non-bool (truthiness is not modelled)")
            saved = dict(self.env)
            def fa():
                r = self.block(list(s.body) + ([] if X.always_returns(s.body) else list(rest))); self.env = dict(saved); return r
            def fb():
                r = self.block(list(s.orelse) + ([] if X.always_returns(s.orelse) else list(rest))); self.env = dict(saved); return r
            (a, ta), (b, tb) = self.branches(c, fa, fb)
            if ta != tb: refuse(s, "branches of different type")
            return ("(if %s then %s else %s)" % (c, a, b), ta)
        for cls, what in ((ast.While, "while loop"), (ast.For, "second loop / loop in a branch"), (ast.Assert, "assert other than `assert len(a) == len(b)` in front of the function"),
                          (ast.AugAssign, "augmented assignment outside the loop")):
            if isinstance(s, cls): refuse(s, what)
        refuse(s, "unsupported statement")


def conj(conds):
    out = []
    for c in conds:
        if c != "true" and c not in out: out.append(c)
    if not out: return "true"
    acc = out[0]
    for c in out[1:]: acc = "(andb %s %s)" % (acc, c)
    return acc


def make_sig(fn, spec):
    """spec: dict(params=[type | {attribute: type}], self={dotted attribute: type})  ->  python parameter names, [(coq name, type)], env, attrs, defaults"""
    a = fn.args
    if a.vararg or a.kwarg or a.kwonlyargs or a.posonlyargs: refuse(fn, "signature with *args / **kwargs / keyword-only parameters")
    for d in fn.decorator_list:
        if dotted(d) != "staticmethod": refuse(fn, "decorated function")
    names = [x.arg for x in a.args]
    coqparams = []; env = {}; attrs = {}
    if "self" in spec:
        if not names or names[0] != "self": refuse(fn, "method without self")
        names = names[1:]
        for path, t in spec["self"].items():
            cn = "self_" + path.replace(".", "_"); coqparams.append((cn, t)); attrs["self." + path] = (cn, t)
    elif names and names[0] == "self": refuse(fn, "method (reads of self are not declared for it)")
    if len(names) != len(spec["params"]): refuse(fn, "signature changed (expected %d parameters)" % len(spec["params"]))
    plain = []
    for nm, t in zip(names, spec["params"]):
        if isinstance(t, dict):
            for at, tt in t.items():
                cn = "%s_%s" % (nm, at); coqparams.append((cn, tt)); attrs["%s.%s" % (nm, at)] = (cn, tt)
        else:
            coqparams.append((coq_ident(nm), t)); env[nm] = (coq_ident(nm), t); plain.append(nm)
    # defaults: literals only; they are applied by the wrapper py_<f>_dflt
    defaults = []
    nd = len(a.defaults)
    for nm, d in zip([x.arg for x in a.args][len(a.args) - nd:], a.defaults):
        if nm not in env: refuse(fn, "default value of an object parameter")
        t = env[nm][1]
        if isinstance(d, ast.Constant) and d.value is None and t == "OZZ": defaults.append((nm, "None"))
        elif isinstance(d, ast.UnaryOp) and isinstance(d.op, ast.USub) and isinstance(d.operand, ast.Constant) and isinstance(d.operand.value, int) and t == "Z": defaults.append((nm, zlit(-d.operand.value)))
        elif isinstance(d, ast.Constant) and isinstance(d.value, int) and not isinstance(d.value, bool) and t == "Z": defaults.append((nm, zlit(d.value)))
        else: refuse(fn, "default value that is not an integer literal / None for an optional pair")
    return plain, coqparams, env, attrs, defaults


class Fold:
    def __init__(self, fn, spec, known):
        self.fn = fn; self.name = fn.name
        self.params, self.coqparams, env, attrs, self.defaults = make_sig(fn, spec)
        self.tr = LE(env, known); self.tr.attrs = attrs
        self.outer = list(self.coqparams)      # the signature of py_<f> / py_<f>_pre (before the prologue re-types optional parameters)
        self.prologue = []                     # `let p := ... in` normalisations of parameters in front of everything else
        self.accs = []            # [name]; types in self.tr.env (None until the first append for list accumulators)
        self.exit = None          # None | "break" | "return"
        self.rtype = None
    # ------------------------------------------------------------------ state tuples
    def comps(self, flag):
        c = [coq_ident(a) for a in self.accs]
        if self.exit: c = [flag] + c
        return c
    def tup(self, flag=None):
        c = self.comps(flag if flag is not None else ("false" if self.exit == "break" else "None"))
        if not c: return "tt"
        return c[0] if len(c) == 1 else "(" + ", ".join(c) + ")"
    def state_type(self):
        ts = []
        if self.exit == "break": ts.append("bool")
        if self.exit == "return": ts.append("(option %s)" % COQT[self.rtype])
        for a in self.accs:
            t = self.tr.env[a][1]
            if t is None: raise Refuse("%s: list accumulator %s is never appended to (its element type is unknown)" % (self.name, a))
            ts.append(COQT[t])
        if not ts: return "unit"
        return ts[0] if len(ts) == 1 else "(" + " * ".join(ts) + ")"
    # ------------------------------------------------------------------ loop body
    @staticmethod
    def exit_kind(s):
        """`if <cond>: break | return <e> | continue` without else -> the exit statement, else None"""
        if isinstance(s, ast.If) and not s.orelse and len(strip(s.body)) == 1 and isinstance(strip(s.body)[0], (ast.Break, ast.Return, ast.Continue)): return strip(s.body)[0]
        return None
    def body(self, stmts, tail=True, top=False):
        stmts = strip(stmts)
        if not stmts: return self.tup()
        s, rest = stmts[0], stmts[1:]
        env = self.tr.env
        ex = self.exit_kind(s) if top else None
        if ex is not None and not (isinstance(ex, ast.Continue) and not rest):
            c, tc = self.tr.expr(s.test)
            if tc != "bool": refuse(s, "exit test on a non-bool")
            if isinstance(ex, ast.Break): t = self.tup("true")
            elif isinstance(ex, ast.Continue): t = self.tup()
            else:
                if ex.value is None: refuse(ex, "bare return")
                e, te = self.tr.expr(ex.value)
                if self.rtype is not None and self.rtype != te: refuse(ex, "returns of different types inside the loop")
                self.rtype = te; t = self.tup("(Some %s)" % e)
            return "(if %s then %s else %s)" % (c, t, self.body(rest, tail, True))
        if isinstance(s, ast.Continue):
            if rest or not tail: refuse(s, "`continue` that is not the last statement of a path through the loop body")
            return self.tup()
        if isinstance(s, ast.Pass): return self.body(rest, tail, top)
        if isinstance(s, ast.Expr) and isinstance(s.value, ast.Call) and isinstance(s.value.func, ast.Attribute) and s.value.func.attr == "append" \
                and isinstance(s.value.func.value, ast.Name) and len(s.value.args) == 1 and not s.value.keywords:
            acc = s.value.func.value.id
            if acc not in self.accs or (env[acc][1] is not None and env[acc][1] not in ELEM): refuse(s, "append to something that is not a list accumulator")
            e, t = self.tr.expr(s.value.args[0])
            if t not in LISTOF: refuse(s, "appended value of unsupported type %s" % t)
            if env[acc][1] is None: env[acc] = (env[acc][0], LISTOF[t])
            elif env[acc][1] != LISTOF[t]: refuse(s, "appended values of different types")
            return "(let %s := (app %s (cons %s nil)) in %s)" % (env[acc][0], env[acc][0], e, self.body(rest, tail, top))
        if isinstance(s, ast.AugAssign) and isinstance(s.target, ast.Name) and isinstance(s.op, (ast.Add, ast.Sub)):
            acc = s.target.id
            if acc not in self.accs or env[acc][1] != "Z": refuse(s, "+= / -= on something that is not an integer accumulator")
            e, t = self.tr.expr(s.value)
            if t != "Z": refuse(s, "+= / -= of a non-integer")
            return "(let %s := (Z.%s %s %s) in %s)" % (env[acc][0], "add" if isinstance(s.op, ast.Add) else "sub", env[acc][0], e, self.body(rest, tail, top))
        if isinstance(s, ast.Assign) and len(s.targets) == 1 and isinstance(s.targets[0], ast.Subscript) and isinstance(s.targets[0].value, ast.Name) and s.targets[0].value.id in self.accs:
            nm = s.targets[0].value.id
            if env[nm][1] not in ELEM: refuse(s, "item assignment to an accumulator that is not a list")
            nat = self.tr.index_by_construction(nm, s.targets[0].slice)
            if nat is None: refuse(s, "item assignment at an index that is not in range by construction")
            e, t = self.tr.expr(s.value)
            if t != ELEM[env[nm][1]]: refuse(s, "item assignment of a value of another type")
            return "(let %s := (py_set %s (Z.of_nat %s) %s) in %s)" % (env[nm][0], env[nm][0], nat, e, self.body(rest, tail, top))
        if isinstance(s, ast.Assign) and len(s.targets) == 1 and isinstance(s.targets[0], ast.Name):
            nm = s.targets[0].id
            e, t = self.tr.expr(s.value)
            if nm in self.accs:
                if env[nm][1] in ELEM or env[nm][1] is None or env[nm][1] != t: refuse(s, "re-assignment of an accumulator that is not a scalar of the same type")
                return "(let %s := %s in %s)" % (env[nm][0], e, self.body(rest, tail, top))
            if nm in env: refuse(s, "assignment to a parameter / the loop variable / an existing temporary")
            env[nm] = (coq_ident(nm), t); self.tr.locals.add(nm)
            r = "(let %s := %s in %s)" % (coq_ident(nm), e, self.body(rest, tail, top))
            del env[nm]
            return r
        if isinstance(s, ast.If):
            c, tc = self.tr.expr(s.test)
            if tc != "bool": refuse(s, "if on a non-bool (truthiness is not modelled)")
            last = tail and not rest
            saved = dict(env)
            def fa():
                r = self.body(s.body, last); self.restore(saved); return r
            def fb():
                r = self.body(s.orelse, last); self.restore(saved); return r
            a, b = self.tr.branches(c, fa, fb)
            v = "(if %s then %s else %s)" % (c, a, b)
            return v if not rest else self.bind_noflag(v, self.body(rest, tail, top))
        for cls, what in ((ast.For, "nested loop"), (ast.While, "while loop"), (ast.Return, "return inside the loop other than `if <cond>: return <expr>` as its first statement"),
                          (ast.Break, "break other than `if <cond>: break` as the first statement of the loop body"), (ast.Assert, "assert inside the loop"),
                          (ast.Assign, "assignment to a subscript / attribute / several targets"), (ast.AugAssign, "augmented assignment other than += / -= on an integer accumulator")):
            if isinstance(s, cls): refuse(s, what)
        refuse(s, "unsupported statement in the loop body")
    def restore(self, saved):
        """forget the temporaries of a branch, keep what was learnt about the element types of list accumulators"""
        for k in list(self.tr.env):
            if k not in saved: del self.tr.env[k]
    def bind_noflag(self, value, rest):
        """inside the body the exit flag is not part of the intermediate tuples' meaning: it is constant there"""
        c = self.comps("_")
        if not c: return "(let _ := %s in %s)" % (value, rest)
        if len(c) == 1: return "(let %s := %s in %s)" % (c[0], value, rest)
        return "(let '(%s) := %s in %s)" % (", ".join(c), value, rest)
    def take_prologue(self, body, pos):
        """parameter normalisations `if <cond>: <parameter> = <expr>` (typically the application of a default): lets in front of everything"""
        tr = self.tr; env = tr.env
        while pos < len(body) and isinstance(body[pos], ast.If) and not body[pos].orelse and len(strip(body[pos].body)) == 1 and isinstance(strip(body[pos].body)[0], ast.Assign) \
                and len(strip(body[pos].body)[0].targets) == 1 and isinstance(strip(body[pos].body)[0].targets[0], ast.Name) and strip(body[pos].body)[0].targets[0].id in self.params:
            a = strip(body[pos].body)[0]; nm = a.targets[0].id; cn, t = env[nm]
            c, tc = tr.expr(body[pos].test); e, te = tr.expr(a.value)
            if tc != "bool": refuse(body[pos], "if on a non-bool")
            if t == "OZZ" and te == "ZZ" and c == "(match %s with None => true | Some _ => false end)" % cn:
                self.prologue.append("let %s := (match %s with Some v_ => v_ | None => %s end) in" % (cn, cn, e)); env[nm] = (cn, "ZZ")
                self.coqparams = [(x, "ZZ" if x == cn else y) for x, y in self.coqparams]
            elif te == t and t in ("Z", "ZZ", "bool"):
                self.prologue.append("let %s := (if %s then %s else %s) in" % (cn, c, e, cn))
            else: refuse(body[pos], "normalisation of a parameter to another type")
            pos += 1
        return pos
    # ------------------------------------------------------------------ the whole function
    def translate(self):
        tr = self.tr; env = tr.env
        body = strip(self.fn.body)
        # the one-liner list(map(lambda x: e, l))
        if len(body) == 1 and isinstance(body[0], ast.Return) and isinstance(body[0].value, ast.Call) and dotted(body[0].value.func) == "list" and len(body[0].value.args) == 1:
            m = body[0].value.args[0]
            if not (isinstance(m, ast.Call) and dotted(m.func) == "map" and len(m.args) == 2 and isinstance(m.args[0], ast.Lambda) and isinstance(m.args[1], ast.Name)): refuse(m, "list(...) of something other than map(lambda x: ..., <parameter>)")
            lam = m.args[0]; l, tl = tr.expr(m.args[1])
            if tl not in ELEM or len(lam.args.args) != 1 or lam.args.defaults or lam.args.vararg or lam.args.kwarg: refuse(m, "map over a non-list / lambda of several arguments")
            x = lam.args.args[0].arg
            if x in env: refuse(lam, "lambda variable shadows a name")
            env[x] = (coq_ident(x), ELEM[tl]); e, te = tr.expr(lam.body); del env[x]
            if te not in LISTOF: refuse(lam, "lambda result of unsupported type")
            self.rtype = LISTOF[te]
            return self.finish("(map (fun %s => %s) %s)" % (coq_ident(x), e, l), [])
        pos = 0
        for x in ast.walk(self.fn):
            if isinstance(x, ast.While): refuse(x, "while loop")
        if sum(1 for x in ast.walk(self.fn) if isinstance(x, ast.For)) > 1: refuse(self.fn, "more than one for loop")
        # asserts
        while pos < len(body) and isinstance(body[pos], ast.Assert):
            t = body[pos].test
            ok = (isinstance(t, ast.Compare) and len(t.ops) == 1 and isinstance(t.ops[0], ast.Eq) and body[pos].msg is None
                  and all(isinstance(z, ast.Call) and dotted(z.func) == "len" and len(z.args) == 1 and isinstance(z.args[0], ast.Name) and env.get(z.args[0].id, (0, 0))[1] in ELEM for z in (t.left, t.comparators[0])))
            if not ok:
                # any other boolean expression of the parameters in the integer fragment: a conjunct of the precondition
                if body[pos].msg is not None: refuse(body[pos], "assert with a message")
                c, tc = tr.expr(t)
                if tc != "bool": refuse(body[pos], "assert on a non-bool (truthiness is not modelled)")
                tr.cur.append(c); pos += 1; continue
            a, b = t.left.args[0].id, t.comparators[0].args[0].id
            tr.samelen.append({a, b}); tr.cur.append("(Nat.eqb (length %s) (length %s))" % (env[a][0], env[b][0]))
            pos += 1
        # merge the equal-length classes
        merged = True
        while merged:
            merged = False
            for i in range(len(tr.samelen)):
                for j in range(i + 1, len(tr.samelen)):
                    if tr.samelen[i] & tr.samelen[j]: tr.samelen[i] |= tr.samelen.pop(j); merged = True; break
                if merged: break
        self.pre0 = tr.cur; tr.cur = []          # the asserts are evaluated before the parameters are normalised
        pos = self.take_prologue(body, pos)
        if not any(isinstance(x, ast.For) for x in ast.walk(self.fn)):
            # loop-free: guards / temporaries / return in the expression fragment (calls of translated functions, list concatenation, subscripts)
            res, self.rtype = tr.block(body[pos:])
            if self.rtype not in COQT: refuse(self.fn, "result of unsupported type")
            return self.finish(res, [])
        # guards `if c: return e`
        guards = []
        while pos < len(body) and isinstance(body[pos], ast.If) and not body[pos].orelse and len(strip(body[pos].body)) == 1 and isinstance(strip(body[pos].body)[0], ast.Return) \
                and not any(isinstance(x, ast.For) for x in ast.walk(body[pos])):
            c, tc = tr.expr(body[pos].test)
            if tc != "bool": refuse(body[pos], "guard on a non-bool")
            r = strip(body[pos].body)[0]
            if r.value is None: refuse(r, "bare return")
            e, te = tr.expr(r.value)
            guards.append((c, e, te)); pos += 1
        uncond = tr.cur; tr.cur = []          # from here on: needed only when no guard returns before
        # accumulators
        inits = []
        while pos < len(body) and isinstance(body[pos], ast.Assign):
            s = body[pos]
            if len(s.targets) != 1 or not isinstance(s.targets[0], ast.Name): refuse(s, "initialisation of something that is not a plain name")
            nm = s.targets[0].id
            if nm in env: refuse(s, "accumulator shadows a parameter / is initialised twice")
            if isinstance(s.value, ast.List) and not s.value.elts: inits.append("nil"); env[nm] = (coq_ident(nm), None)
            else:
                if isinstance(s.value, ast.Constant) and s.value.value is None: refuse(s, "None as an accumulator")
                e, t = tr.expr(s.value)
                if isinstance(s.value, ast.ListComp) and t in ELEM:
                    # [c for i in range(len(l))]: a list accumulator of the length of l, updated by `acc[i] = v`
                    tr.samelen.append({nm, s.value.generators[0].iter.args[0].args[0].id}) if isinstance(s.value.generators[0].iter.args[0].args[0], ast.Name) else None
                elif t not in ("Z", "bool", "ZZ"): refuse(s, "accumulator of unsupported type %s" % t)
                inits.append(e); env[nm] = (coq_ident(nm), t)
            self.accs.append(nm); tr.locals.add(nm); pos += 1
        npro = len(self.prologue)
        pos = self.take_prologue(body, pos)
        if len(self.prologue) > npro and (guards or uncond or tr.cur): refuse(self.fn, "normalisation of a parameter after guards / after code that can raise")
        import re as _re
        for l in self.prologue[npro:]:
            for a in self.accs:
                if _re.search(r"(?<![A-Za-z0-9_.])%s(?![A-Za-z0-9_'])" % _re.escape(coq_ident(a)), l): refuse(self.fn, "normalisation of a parameter that depends on an accumulator")
        if pos >= len(body): refuse(self.fn, "no loop found where one is expected")
        # the loop, optionally under one `if`
        wrap = None; lp = body[pos]
        if isinstance(lp, ast.If) and not lp.orelse and len(strip(lp.body)) == 1 and isinstance(strip(lp.body)[0], ast.For):
            wrap, tw = tr.expr(lp.test)
            if tw != "bool": refuse(lp, "if on a non-bool around the loop")
            lp = strip(lp.body)[0]
        if isinstance(lp, ast.While): refuse(lp, "while loop")
        if not isinstance(lp, ast.For): refuse(lp, "statement where the loop is expected (one `for`, optionally under one `if` without else)")
        if lp.orelse: refuse(lp, "for ... else")
        if not isinstance(lp.target, ast.Name): refuse(lp, "loop target that is not a plain name (tuple unpacking / enumerate / zip are not translated)")
        var = lp.target.id
        if var in env: refuse(lp, "loop variable shadows a name")
        it = lp.iter
        if isinstance(it, ast.Name) and env.get(it.id, (0, 0))[1] in ELEM and it.id in self.params:
            tr.loop = dict(kind="elem", var=var); env[var] = (coq_ident(var), ELEM[env[it.id][1]])
            iterlist = env[it.id][0]; vart = COQT[ELEM[env[it.id][1]]]
        elif isinstance(it, ast.Call) and dotted(it.func) == "range" and not it.keywords and len(it.args) == 3 and not any(isinstance(x, ast.Starred) for x in it.args):
            # range(a, b, -1): a, a-1, ..., b+1; the loop variable is an integer
            st_ = it.args[2]
            if not (isinstance(st_, ast.UnaryOp) and isinstance(st_.op, ast.USub) and isinstance(st_.operand, ast.Constant) and st_.operand.value == 1): refuse(it, "range with a step other than -1")
            (lo, tl), (hi2, th) = tr.expr(it.args[0]), tr.expr(it.args[1])
            if tl != "Z" or th != "Z": refuse(it, "range bounds that are not integers")
            tr.loop = dict(kind="range_down", var=var)
            iterlist = "(map (fun k_ => Z.sub %s (Z.of_nat k_)) (seq 0 (Z.to_nat (Z.sub %s %s))))" % (lo, lo, hi2)
            env[var] = (coq_ident(var), "Z"); vart = "Z"
        elif isinstance(it, ast.Call) and dotted(it.func) == "range" and not it.keywords and ((len(it.args) == 1 and isinstance(it.args[0], ast.Starred)) or
                (len(it.args) == 2 and not any(isinstance(x, ast.Starred) for x in it.args) and not (isinstance(it.args[0], ast.Constant) and it.args[0].value == 0))):
            # range(*pair) = range(pair[0], pair[1]);  range(a, b) with integer expressions: the loop variable is an integer
            if len(it.args) == 1:
                pr, tp_ = tr.expr(it.args[0].value)
                if tp_ != "ZZ": refuse(it, "range(*x) with x not a pair")
                lo, hi2 = "(fst %s)" % pr, "(snd %s)" % pr
            else:
                (lo, tl), (hi2, th) = tr.expr(it.args[0]), tr.expr(it.args[1])
                if tl != "Z" or th != "Z": refuse(it, "range bounds that are not integers")
            tr.loop = dict(kind="range_zz", var=var)
            iterlist = "(map (fun k_ => Z.add %s (Z.of_nat k_)) (seq 0 (Z.to_nat (Z.sub %s %s))))" % (lo, hi2, lo)
            env[var] = (coq_ident(var), "Z"); vart = "Z"
        elif isinstance(it, ast.Call) and dotted(it.func) == "range" and not it.keywords and all(not isinstance(x, ast.Starred) for x in it.args) and len(it.args) in (1, 2):
            hi = it.args[-1]; base = None; k = 0
            def is_len(z): return isinstance(z, ast.Call) and dotted(z.func) == "len" and len(z.args) == 1 and isinstance(z.args[0], ast.Name) and z.args[0].id in self.params and env[z.args[0].id][1] in ELEM
            if is_len(hi): base = hi.args[0].id
            elif isinstance(hi, ast.BinOp) and isinstance(hi.op, ast.Sub) and is_len(hi.left) and isinstance(hi.right, ast.Constant) and isinstance(hi.right.value, int) and not isinstance(hi.right.value, bool) and hi.right.value >= 0:
                base = hi.left.args[0].id; k = hi.right.value
            if base is not None:
                tr.loop = dict(kind="range_len", var=var, base=base, k=k)
                iterlist = "(seq 0 (Nat.sub (length %s) %d%%nat))" % (env[base][0], k) if k else "(seq 0 (length %s))" % env[base][0]
            else:
                e, te = tr.expr(hi)
                if te != "Z": refuse(it, "range bound that is not an integer expression")
                tr.loop = dict(kind="range_z", var=var)
                iterlist = "(seq 0 (Z.to_nat %s))" % e
            env[var] = (coq_ident(var), "idx"); vart = "nat"
        else:
            refuse(it, "loop over something other than a list parameter or range(...) of the accepted forms (range(*x), zip, enumerate, slices are not translated)")
        lb = strip(lp.body)
        if wrap is not None: wrap_outer = tr.cur; tr.cur = []
        outer_conds = tr.cur; tr.cur = []        # conditions of the loop body: for every iteration
        # exits `if c: break` / `if c: return e` among the top-level statements of the body (a `stopped` flag / an option in the state)
        kinds = set(type(self.exit_kind(x)).__name__ for x in lb if self.exit_kind(x) is not None and not isinstance(self.exit_kind(x), ast.Continue))
        if len(kinds) > 1: refuse(lp, "both `break` and `return` in one loop")
        if kinds: self.exit = "break" if kinds == {"Break"} else "return"
        tr.in_loop = True
        stepbody = self.body(lb, True, True)
        tr.in_loop = False
        loop_conds = tr.cur; tr.cur = outer_conds
        del env[var]; loopinfo = tr.loop; tr.loop = None
        # post-processing and return
        tail_ = strip(body[pos + 1:]); raises = False
        if len(tail_) == 1 and isinstance(tail_[0], ast.Raise):
            if self.exit != "return" or self.rtype not in ("Z", "bool", "ZZ"): refuse(tail_[0], "raise after a loop that does not return a scalar from inside")
            raises = True; post, tp = ({"Z": "(0)%Z", "bool": "false", "ZZ": "((0)%Z, (0)%Z)"}[self.rtype], self.rtype)
        else: post, tp = tr.block(body[pos + 1:])
        if self.rtype is not None and tp != self.rtype: refuse(self.fn, "return inside the loop and final return of different types")
        self.rtype = tp
        for c, e, te in guards:
            if te != tp: refuse(self.fn, "guard returns another type than the function")
        if tp not in COQT: refuse(self.fn, "result of unsupported type")
        S = self.state_type()
        v = coq_ident(var)
        if self.exit == "break":
            step = self.bind_flag("stop_", "(if stop_ then st_ else %s)" % stepbody)
        elif self.exit == "return":
            step = self.bind_flag("ret_", "(match ret_ with Some _ => st_ | None => %s end)" % stepbody)
        else:
            step = self.bind_flag(None, stepbody)
        init = self.tup_of(([] if not self.exit else ["false" if self.exit == "break" else "None"]) + inits)
        sig = self.sig(inner=True)
        defs = ["Definition py_%s_step %s (st_ : %s) (%s : %s) : %s := %s." % (self.name, sig, S, v, vart, S, step)]
        fold = "(fold_left (py_%s_step %s) %s %s)" % (self.name, self.args(), iterlist, init)
        if wrap is not None: fold = "(if %s then %s else %s)" % (wrap, fold, init)
        if self.exit == "return": post = "(match ret_ with Some r_ => r_ | None => %s end)" % post
        res = self.bind_flag("stop_" if self.exit == "break" else "ret_" if self.exit else None, post, fold)
        for c, e, _ in reversed(guards): res = "(if %s then %s else %s)" % (c, e, res)
        late = tr.cur                       # post-processing conditions were appended to outer_conds (= tr.cur)
        if raises: late.append("(match %s with Some _ => true | None => false end)" % (self.bind_flag("ret_", "ret_", fold)))      # the final `raise` is not reached
        lc = conj(loop_conds)
        if lc != "true":
            lc = "(forallb (fun %s => %s) %s)" % (v, lc, iterlist)
            if wrap is not None: lc = "(if %s then %s else true)" % (wrap, lc)
            late.append(lc)
        if wrap is not None: late = wrap_outer + late
        cond = conj(late)
        if cond != "true":
            for g, _, _ in reversed(guards): cond = "(orb %s %s)" % (g, cond)
        return self.finish(res, defs, uncond + [cond])
    def tup_of(self, parts):
        if not parts: return "tt"
        return parts[0] if len(parts) == 1 else "(" + ", ".join(parts) + ")"
    def bind_flag(self, flag, rest, value="st_"):
        c = ([flag] if flag else []) + [coq_ident(a) for a in self.accs]
        if not c: return "(let _ := %s in %s)" % (value, rest)
        if len(c) == 1: return "(let %s := %s in %s)" % (c[0], value, rest)
        return "(let '(%s) := %s in %s)" % (", ".join(c), value, rest)
    def sig(self, inner=False):
        ps = self.coqparams if inner else self.outer
        return " ".join(["(%s : Z)" % i for i in self.tr.infs] + ["(%s : %s)" % (c, COQT[t]) for c, t in ps])
    def args(self): return " ".join(self.tr.infs + [c for c, _ in self.coqparams])
    def wrap_prologue(self, term):
        for l in reversed(self.prologue): term = "(%s %s)" % (l, term)
        return term
    def finish(self, res, defs, pre=None):
        import re
        cond = conj(pre if pre is not None else self.tr.cur)
        for nm in self.tr.locals:
            if re.search(r"(?<![A-Za-z0-9_.])%s(?![A-Za-z0-9_'])" % re.escape(coq_ident(nm)), cond) and nm not in self.params:
                raise Refuse("%s: the in-range condition of a subscript depends on the temporary / accumulator `%s` (state-dependent indices are not translated)" % (self.name, nm))
        sig = self.sig()
        out = list(defs)
        res = self.wrap_prologue(res); cond = self.wrap_prologue(cond)
        c0 = conj(getattr(self, "pre0", []))
        if c0 != "true": cond = c0 if cond == "true" else "(andb %s %s)" % (c0, cond)
        self.pre_is_true = (cond == "true")
        out.append("Definition py_%s %s : %s := %s." % (self.name, sig, COQT[self.rtype], res))
        out.append("Definition py_%s_pre %s : bool := %s." % (self.name, sig, cond))
        if self.defaults:
            dn = [coq_ident(n) for n, _ in self.defaults]; dv = dict((coq_ident(n), v) for n, v in self.defaults)
            req = [(c, t) for c, t in self.outer if c not in dn]
            dsig = " ".join(["(%s : Z)" % i for i in self.tr.infs] + ["(%s : %s)" % (c, COQT[t]) for c, t in req])
            dargs = " ".join(self.tr.infs + [dv.get(c, c) for c, _ in self.outer])
            out.append("Definition py_%s_dflt %s : %s := (py_%s %s).      (* the call with the default arguments *)" % (self.name, dsig, COQT[self.rtype], self.name, dargs))
            out.append("Definition py_%s_dflt_pre %s : bool := (py_%s_pre %s)." % (self.name, dsig, self.name, dargs))
        return out


class WFn:
    """Functions with `while` loops (and straight-line code around them), translated in CHECKED form: the result is a `py_run`:
       py_Done v, py_OutOfFuel, or py_Raises k as soon as a subscript is out of range (1), an assert fails (3), a float division has a
       zero divisor (4), .index() finds nothing (5).  Every `while` becomes a Fixpoint on an explicit fuel parameter whose state is the
       tuple of ALL local variables defined so far; the body is straight-line code (assignments, +=, -=, append, `l[i] = v`, assert,
       if/elif/else) with an optional first statement `if c: break`; no continue, no nested loop, no return inside the loop."""
    def __init__(self, fn, spec, known):
        self.fn = fn; self.name = fn.name
        self.params, self.coqparams, env, attrs, self.defaults = make_sig(fn, spec)
        if self.defaults: refuse(fn, "default arguments in a function with a while loop")
        self.tr = LE(env, known); self.tr.attrs = attrs
        self.locals = []           # local variables of the function, in the order of their first assignment
        self.loops = {}            # id(While node) -> (name, state variables)
        self.defs = []
        self.rtype = None
    # ---- helpers
    def sig(self): return " ".join("(%s : %s)" % (c, COQT[t]) for c, t in self.coqparams)
    def args(self): return " ".join(c for c, _ in self.coqparams)
    def check(self, inner):
        """guard `inner` by the conditions collected since the last call, in the order of evaluation"""
        for c, k in reversed(self.tr.take()): inner = "(if %s then %s else (py_Raises %d%%N))" % (c, inner, k)
        return inner
    def tup(self, names):
        c = [self.tr.env[n][0] for n in names]
        return "tt" if not c else c[0] if len(c) == 1 else "(" + ", ".join(c) + ")"
    def pat(self, names, value, rest):
        c = [self.tr.env[n][0] for n in names]
        if not c: return "(let _ := %s in %s)" % (value, rest)
        if len(c) == 1: return "(let %s := %s in %s)" % (c[0], value, rest)
        return "(let '(%s) := %s in %s)" % (", ".join(c), value, rest)
    def stype(self, names):
        ts = []
        for n in names:
            t = self.tr.env[n][1]
            if t is None: raise Refuse("%s: the list %s is never appended to (its element type is unknown)" % (self.name, n))
            ts.append(COQT[t])
        return "unit" if not ts else ts[0] if len(ts) == 1 else "(" + " * ".join(ts) + ")"
    # ---- one simple statement -> (text of `let .. in`, None) ; returns a function wrapping the continuation
    def simple(self, s, in_body):
        """assignment-like statements; returns k such that k(rest_term) is the term for `s; rest`"""
        tr = self.tr; env = tr.env
        if isinstance(s, ast.Assert):
            if s.msg is not None: refuse(s, "assert with a message")
            c, tc = tr.expr(s.test)
            if tc != "bool": refuse(s, "assert on a non-bool")
            pre = tr.take()
            def k(rest, c=c, pre=pre):
                t = "(if %s then %s else (py_Raises 3%%N))" % (c, rest)
                for cc, kk in reversed(pre): t = "(if %s then %s else (py_Raises %d%%N))" % (cc, t, kk)
                return t
            return k
        if isinstance(s, ast.Expr) and isinstance(s.value, ast.Call) and isinstance(s.value.func, ast.Attribute) and s.value.func.attr == "append" \
                and isinstance(s.value.func.value, ast.Name) and len(s.value.args) == 1 and not s.value.keywords:
            acc = s.value.func.value.id
            if acc not in self.locals or (env[acc][1] is not None and env[acc][1] not in ELEM): refuse(s, "append to something that is not a local list")
            e, t = tr.expr(s.value.args[0])
            if t not in LISTOF: refuse(s, "appended value of unsupported type %s" % t)
            if env[acc][1] is None: env[acc] = (env[acc][0], LISTOF[t])
            elif env[acc][1] != LISTOF[t]: refuse(s, "appended values of different types")
            return self.letk(env[acc][0], "(app %s (cons %s nil))" % (env[acc][0], e))
        if isinstance(s, ast.AugAssign) and isinstance(s.target, ast.Name) and isinstance(s.op, (ast.Add, ast.Sub)):
            nm = s.target.id
            if nm not in self.locals or env[nm][1] != "Z": refuse(s, "+= / -= on something that is not a local integer")
            e, t = tr.expr(s.value)
            if t != "Z": refuse(s, "+= / -= of a non-integer")
            return self.letk(env[nm][0], "(Z.%s %s %s)" % ("add" if isinstance(s.op, ast.Add) else "sub", env[nm][0], e))
        if isinstance(s, ast.Assign) and len(s.targets) == 1 and isinstance(s.targets[0], ast.Subscript) and isinstance(s.targets[0].value, ast.Name):
            nm = s.targets[0].value.id
            if nm not in self.locals or env[nm][1] not in ELEM: refuse(s, "item assignment to something that is not a local list")
            i, ti = tr.expr(s.targets[0].slice); e, te = tr.expr(s.value)
            if ti != "Z" or te != ELEM[env[nm][1]]: refuse(s, "item assignment with a non-integer index / a value of another type")
            tr.add("(py_index_ok %s %s)" % (env[nm][0], i), 1)
            return self.letk(env[nm][0], "(py_set %s %s %s)" % (env[nm][0], i, e))
        if isinstance(s, ast.Assign) and len(s.targets) == 1 and isinstance(s.targets[0], ast.Name):
            nm = s.targets[0].id
            if isinstance(s.value, ast.List) and not s.value.elts: e, t = "nil", None
            else:
                if isinstance(s.value, ast.Constant) and s.value.value is None: refuse(s, "None as a value")
                e, t = tr.expr(s.value)
                if t not in COQT or t in ("idx", "OZZ"): refuse(s, "value of unsupported type %s" % t)
            if nm in env:
                if nm in self.params or (env[nm][1] is not None and t is not None and env[nm][1] != t): refuse(s, "re-assignment of a parameter / of a name with another type")
                if nm not in self.locals and not in_body: refuse(s, "re-assignment")
            elif not in_body: self.locals.append(nm)
            k = self.letk(coq_ident(nm), e)
            if nm not in env or env[nm][1] is None: env[nm] = (coq_ident(nm), t)
            return k
        return None
    def letk(self, name, value):
        pre = self.tr.take()
        def k(rest):
            t = "(let %s := %s in %s)" % (name, value, rest)
            for cc, kk in reversed(pre): t = "(if %s then %s else (py_Raises %d%%N))" % (cc, t, kk)
            return t
        return k
    # ---- loop body: -> term of type py_run S
    def body(self, stmts, state):
        stmts = strip(stmts)
        if not stmts: return "(py_Done %s)" % self.tup(state)
        s, rest = stmts[0], stmts[1:]
        tr = self.tr; env = tr.env
        k = self.simple(s, True)
        if k is not None:
            new_temp = isinstance(s, ast.Assign) and isinstance(s.targets[0], ast.Name) and s.targets[0].id not in state
            r = k(self.body(rest, state))
            if new_temp and False: pass
            return r
        if isinstance(s, ast.If):
            c, tc = tr.expr(s.test)
            if tc != "bool": refuse(s, "if on a non-bool (truthiness is not modelled)")
            pre = tr.take()
            saved = dict(env)
            a = self.body(s.body, state); self.forget(saved)
            b = self.body(s.orelse, state); self.forget(saved)
            t = "(if %s then %s else %s)" % (c, a, b)
            if rest: t = "(py_bind %s (fun st_ => %s))" % (t, self.pat(state, "st_", self.body(rest, state)))
            for cc, kk in reversed(pre): t = "(if %s then %s else (py_Raises %d%%N))" % (cc, t, kk)
            return t
        for cls, what in ((ast.For, "nested loop"), (ast.While, "nested loop"), (ast.Return, "return inside a while loop"), (ast.Continue, "continue in a while loop"),
                          (ast.Break, "break other than `if <cond>: break` as the first statement of the loop body")):
            if isinstance(s, cls): refuse(s, what)
        refuse(s, "unsupported statement in the loop body")
    def forget(self, saved):
        for k in list(self.tr.env):
            if k not in saved: del self.tr.env[k]
    # ---- function level: -> term of type py_run R
    def seq(self, stmts):
        stmts = strip(stmts)
        if not stmts: raise Refuse("%s: a path falls off the end of the function (implicit None)" % self.name)
        s, rest = stmts[0], stmts[1:]
        tr = self.tr; env = tr.env
        if isinstance(s, ast.Return):
            if s.value is None: refuse(s, "bare return")
            if rest: refuse(rest[0], "statement after return")
            e, t = tr.expr(s.value)
            if t not in COQT or t in ("idx", "OZZ"): refuse(s, "result of unsupported type")
            if self.rtype is not None and self.rtype != t: refuse(s, "returns of different types")
            self.rtype = t
            return self.check("(py_Done %s)" % e)
        k = self.simple(s, False)
        if k is not None: return k(self.seq(rest))
        if isinstance(s, ast.If):
            if not strip(s.body) and not strip(s.orelse):
                c, tc = tr.expr(s.test)              # only logging in the branches: nothing to do, but the test must be in the fragment and harmless
                if tr.take(): refuse(s, "logging-only if whose test can raise")
                return self.seq(rest)
            c, tc = tr.expr(s.test)
            if tc != "bool": refuse(s, "if on a non-bool (truthiness is not modelled)")
            pre = tr.take()
            saved_env = dict(env); saved_loc = list(self.locals)
            a = self.seq(list(s.body) + ([] if X.always_returns(s.body) else list(rest)))
            la = list(self.locals); tr.env = env = dict(saved_env); self.locals = list(saved_loc)
            b = self.seq(list(s.orelse) + ([] if X.always_returns(s.orelse) else list(rest)))
            t = "(if %s then %s else %s)" % (c, a, b)
            for cc, kk in reversed(pre): t = "(if %s then %s else (py_Raises %d%%N))" % (cc, t, kk)
            return t
        if isinstance(s, ast.While):
            if s.orelse: refuse(s, "while ... else")
            state = list(self.locals)
            key = id(s)
            lb = strip(s.body)
            if key not in self.loops:
                lname = "py_%s_loop%d" % (self.name, len(self.loops) + 1)
                c, tc = tr.expr(s.test)
                if tc != "bool": refuse(s, "while on a non-bool (truthiness is not modelled)")
                cpre = tr.take()
                brk = None
                if lb and Fold.exit_kind(lb[0]) is not None:
                    if not isinstance(Fold.exit_kind(lb[0]), ast.Break): refuse(lb[0], "return / continue inside a while loop")
                    bc, bt = tr.expr(lb[0].test)
                    if bt != "bool": refuse(lb[0], "break test on a non-bool")
                    brk = (bc, tr.take()); lb = lb[1:]
                saved = dict(env)
                bterm = self.body(lb, state); self.forget(saved)
                step = "(py_bind %s (%s %s fuel_'))" % (bterm, lname, self.args())
                if brk is not None:
                    step = "(if %s then (py_Done st_) else %s)" % (brk[0], step)
                    for cc, kk in reversed(brk[1]): step = "(if %s then %s else (py_Raises %d%%N))" % (cc, step, kk)
                t = "(if %s then %s else (py_Done st_))" % (c, step)
                for cc, kk in reversed(cpre): t = "(if %s then %s else (py_Raises %d%%N))" % (cc, t, kk)
                S = self.stype(state)
                self.defs.append("Fixpoint %s %s (fuel_ : nat) (st_ : %s) {struct fuel_} : py_run %s := match fuel_ with O => py_OutOfFuel | Datatypes.S fuel_' => %s end."
                                 % (lname, self.sig(), S, S, self.pat(state, "st_", t)))
                self.loops[key] = (lname, state)
            lname, st0 = self.loops[key]
            if st0 != state: refuse(s, "the loop is reached with different sets of local variables")
            return "(py_bind (%s %s fuel_ %s) (fun st_ => %s))" % (lname, self.args(), self.tup(state), self.pat(state, "st_", self.seq(rest)))
        for cls, what in ((ast.For, "for loop in a function with a while loop"),):
            if isinstance(s, cls): refuse(s, what)
        refuse(s, "unsupported statement")
    def translate(self):
        body = strip(self.fn.body)
        res = self.seq(body)
        out = list(self.defs)
        out.append("Definition py_%s (fuel_ : nat) %s : py_run %s := %s." % (self.name, self.sig(), COQT[self.rtype], res))
        self.pre_is_true = True
        return out


# (file, function or Class.method, specification, required).  Required functions must translate (otherwise the whole translator refuses: a
# model is bridged to them); the others are attempted on every run and the construct that does not fit is recorded as a comment in Loops.v.
def P_(*types, **kw):
    d = dict(params=list(types)); d.update(kw); return d
FIXER = {"params.max_fake_terminal_exon_len": "Z"}
TARGETS = [
    ("src/common.py", "intervals_total_length", P_("LZZ"), True),
    ("src/common.py", "junctions_from_blocks", P_("LZZ"), True),
    ("src/common.py", "get_exons", P_("ZZ", "LZZ"), True),
    ("src/common.py", "correct_bam_coords", P_("LZZ"), True),
    ("src/common.py", "count_both_present_features", P_("LZ", "LZ"), True),
    ("src/common.py", "all_features_present", P_("LZ", "LZ"), True),
    ("src/common.py", "has_inconsistent_features", P_("LZ", "LZ"), True),
    ("src/common.py", "mask_profile", P_("LZ", "LZ"), True),
    ("src/common.py", "get_blocks_from_profile", P_("LZZ", "LZ"), True),
    ("src/polya_verification.py", "shift_polya", P_("LZZ", "Z", "Z"), True),
    ("src/polya_verification.py", "shift_polyt", P_("LZZ", "Z", "Z"), True),
    ("src/common.py", "get_following_exon_from_junctions", P_("ZZ", "LZZ", "Z"), True),
    ("src/common.py", "get_preceding_exon_from_junctions", P_("ZZ", "LZZ", "Z"), True),
    # ---- round 3: while fragment, small extensions, methods
    ("src/common.py", "get_exon", P_("ZZ", "LZZ", "Z"), True),
    ("src/common.py", "sum_intervals_to_point", P_("LZZ", "Z"), True),
    ("src/common.py", "sum_intervals_from_point", P_("LZZ", "Z"), True),
    ("src/common.py", "read_coverage_fraction", P_("LZZ", "LZZ"), True),
    ("src/common.py", "jaccard_similarity", P_("LZZ", "LZZ"), True),
    ("src/common.py", "merge_ranges", P_("LZZ", "LZZ"), True),
    ("src/common.py", "extra_exon_percentage", P_("ZZ", "LZZ"), False),
    ("src/common.py", "equal_profiles_in_range", P_("LZ", "LZ", "ZZ"), True),
    ("src/common.py", "has_overlapping_features", P_("LZ", "LZ", "OZZ"), True),
    ("src/common.py", "difference_in_present_features", P_("LZ", "LZ", "Z", "OZZ"), True),
    ("src/common.py", "find_matching_positions", P_("LZ", "LZ"), True),
    ("src/common.py", "rindex", P_("LZ", "Z"), True),
    ("src/common.py", "left_truncated", P_("LZ", "LZ"), True),
    ("src/common.py", "right_truncated", P_("LZ", "LZ"), True),
    ("src/polya_verification.py", "PolyAFixer.count_polya_exons", P_("LZZ", "Z", self=FIXER), True),
    ("src/polya_verification.py", "PolyAFixer.count_polyt_exons", P_("LZZ", "Z", self=FIXER), True),
    ("src/polya_verification.py", "PolyAFixer.correct_read_info", P_("LZZ", {"internal_polya_pos": "Z", "internal_polyt_pos": "Z"}, self=FIXER), True),
    ("src/common.py", "concat_gapless_blocks", P_("LZZ", "LZZ"), False),
    ("src/common.py", "is_subprofile", P_("LZ", "LZ"), False),
    ("src/common.py", "truncate_read_to_polya", P_("LZZ", "Z", "Z"), False),
    ("src/multimap_resolver.py", "MultimapResolver.find_duplicates", P_("LZ", "LZ"), False),
    ("src/multimap_resolver.py", "MultimapResolver.select_noninformative", P_("LZ", "LZ"), False),
    ("src/alignment_processor.py", "InMemoryAlignmentStorage.fill_index", P_(self={}), False),
    ("src/alignment_processor.py", "AbstractAlignmentStorage.add_alignment", P_("Z", {"reference_start": "Z", "reference_end": "Z"}, self={}), False),
]

def find_function(tree, name):
    if "." in name:
        cname, m = name.split(".")
        return X.method(X.top_class(tree, cname), m)
    return X.top_func(tree, name)

def main():
    out = ["(* GENERATED by translate_loops.py from %s -- do not edit *)" % REPO,
           "From Coq Require Import ZArith NArith QArith List Bool. From IQ.gen Require Import Prims. Import ListNotations.",
           "(* Python's l[i] with negative wrap-around (total: the default is returned outside the list) and its in-range condition *)"] + SUPPORT + [""]
    trees = {}
    known = {}
    for name, kinds in P.FUNCS.items():
        known[name] = ("py_" + name, [{"r": "ZZ", "z": "Z"}[k] for k in kinds], None, 0)
    # result types of the loop-free functions of gen/Prims.v (translate_prims.py checks them; here only what the fragment calls is listed)
    PRIM_RESULT = {"interval_len": "Z", "overlaps": "bool", "contains": "bool", "left_of": "bool", "intersection_len": "Z", "equal_ranges": "bool"}
    known = {k: (v[0], v[1], PRIM_RESULT[k], 0) for k, v in known.items() if k in PRIM_RESULT}
    refused = []
    for path, name, spec, required in TARGETS:
        try:
            if path not in trees: trees[path] = X.parse(path)
            fn = find_function(trees[path], name)
            has_while = any(isinstance(x, ast.While) for x in ast.walk(fn))
            f = (WFn if has_while else Fold)(fn, spec, known)
            defs = f.translate()
        except Refuse as e:
            if required: raise Refuse("%s (required): %s" % (name, e))
            refused.append((name, str(e))); continue
        out.append("(* %s:%s *)" % (path, name))
        out += defs + [""]
        if not has_while:
            key = "self." + fn.name if "self" in spec else fn.name
            ptypes = [t for t in spec["params"]]
            if all(isinstance(t, str) for t in ptypes):
                selfargs = [c for c, _ in f.coqparams if c.startswith("self_")]
                known[key] = ("py_" + fn.name, ptypes, f.rtype, len(f.tr.infs), selfargs, None if f.pre_is_true else "py_%s_pre" % fn.name)
    out.append("(* functions of the candidate list that do not fit the fragment, and the first construct that does not fit:")
    for name, why in refused: out.append("   %s: %s" % (name, why.replace("*)", "* )").replace("(*", "( *").replace("\n", " ").replace(chr(34), chr(39))))
    out.append("*)")
    print("\n".join(out))

if __name__ == "__main__":
    try: main()
    except Refuse as e: sys.stderr.write("TRANSLATOR REFUSES: %s\n" % e); sys.exit(3)
