#!/usr/bin/env python3
"""Fail-closed translation of a FOLD FRAGMENT of Python into Gallina (coq/gen/Loops.v).

   Accepted shape of a function (anything else is refused with a message naming the construct):
     [assert len(a) == len(b)]*                       -> conjuncts of py_<f>_pre (the function is meaningful under it; Python raises AssertionError otherwise)
     [if <cond>: return <expr>]*                      -> guards in front of everything else
     [acc = [] | n = <expr of parameters>]*           -> accumulators (state of the fold, in this order)
     ONE loop, optionally wrapped in `if <cond>:` without else:
         for x in <list parameter>                                  -> fold_left over the list
         for i in range(len(l)) / range(0, len(l)) / range(len(l) - k) / range(0, len(l) - k)
                                                                    -> fold_left over seq 0 (length l - k), i : nat
         for i in range(<e>) with <e> an integer expression of the parameters
                                                                    -> fold_left over seq 0 (Z.to_nat e), i : nat
       body: optional first statement `if <cond>: break` or `if <cond>: return <expr>` (a `stopped` flag / an `option` result in the
             state; once set the remaining iterations leave the state alone), then straight-line code: `acc.append(e)`, `n += e`,
             `n -= e`, re-assignment of a scalar accumulator, fresh temporaries, if/elif/else, `continue` only as the LAST statement
             of a path through the body (where it is a no-op)
     [straight-line post-processing] return <expr of accumulators and parameters>
   plus the one-liner `return list(map(lambda x: <expr>, <list parameter>))` and calls of already translated functions.
   List indexing: `l[i + c]` with i the loop index is translated to `nth (i + c) l dflt` only when it is in range BY CONSTRUCTION:
     under range(len(m) - k) with 0 <= c <= k and l = m or `assert len(l) == len(m)`.
   Every other subscript of a list is translated to Python's indexing with wrap-around, `py_index l e dflt`, and the condition
   -len(l) <= e < len(l) is added to py_<f>_pre (for a subscript inside the loop: for every iteration, whatever the branch taken;
   this is stronger than what Python needs, never weaker).  Under py_<f>_pre no IndexError / AssertionError is possible.
   `math.inf` / `-math.inf` as a tuple component is translated to an extra integer parameter `inf_k` of the function (the bridge
   lemma has to hold for EVERY value of it, i.e. the result may not depend on it); it is refused anywhere else.
   Integers are Z, pairs are Z * Z, lists are `list`; operators are printed by name (no dependence on notation scopes)."""
import ast, sys, os
sys.argv = sys.argv[:]            # the two imported translators read argv[1] as the repository
import translate_extra as X
import translate_prims as P
from translate_extra import Refuse, refuse, strip, dotted, coq_ident, zlit
REPO = X.REPO

COQT = {"Z": "Z", "bool": "bool", "ZZ": "(Z * Z)", "LZ": "(list Z)", "LZZ": "(list (Z * Z))", "idx": "nat"}
ELEM = {"LZ": "Z", "LZZ": "ZZ"}
LISTOF = {"Z": "LZ", "ZZ": "LZZ"}
DFLT = {"Z": "(0)%Z", "ZZ": "((0)%Z, (0)%Z)"}
SUPPORT = ["Definition py_index {A} (l:list A) (i:Z) (d:A) : A := nth (Z.to_nat (if Z.ltb i 0 then Z.add (Z.of_nat (length l)) i else i)) l d.",
           "Definition py_index_ok {A} (l:list A) (i:Z) : bool := andb (Z.leb (Z.opp (Z.of_nat (length l))) i) (Z.ltb i (Z.of_nat (length l)))."]


class LE(X.Tr):
    """expressions of the loop fragment; env: name -> (coq, type)"""
    def __init__(self, env, known):
        X.Tr.__init__(self, env, {}, ())
        self.known = known                  # translated functions callable from here: name -> (coq name, [param types], result type, extra leading args)
        self.loop = None                    # dict(kind, var, base, k)
        self.samelen = []                   # list of sets of list names asserted to have equal length
        self.cur = []                       # index / assert conditions collected for the code being translated (coq bools), branch-sensitive
        self.in_loop = False
        self.locals = set()                 # temporaries and accumulators: no collected condition may mention them
        self.infs = []                      # names of the integer parameters standing for +-math.inf
    def same_length(self, a, b):
        return a == b or any(a in s and b in s for s in self.samelen)
    def index_by_construction(self, lst, idx):
        """(nat expression) when lst[idx] is in range by construction, else None"""
        lp = self.loop
        if not (self.in_loop and lp and lp["kind"] == "range_len"): return None
        c = None
        if isinstance(idx, ast.Name) and idx.id == lp["var"]: c = 0
        elif (isinstance(idx, ast.BinOp) and isinstance(idx.op, ast.Add) and isinstance(idx.left, ast.Name) and idx.left.id == lp["var"]
              and isinstance(idx.right, ast.Constant) and isinstance(idx.right.value, int) and not isinstance(idx.right.value, bool)): c = idx.right.value
        if c is None or not (0 <= c <= lp["k"]) or not self.same_length(lst, lp["base"]): return None
        v = coq_ident(lp["var"])
        return v if c == 0 else "(Nat.add %s %d%%nat)" % (v, c)
    def expr(self, n):
        if isinstance(n, ast.Name) and n.id in self.env and self.env[n.id][1] == "idx":
            return ("(Z.of_nat %s)" % self.env[n.id][0], "Z")
        if isinstance(n, ast.Call) and isinstance(n.func, ast.Name) and n.func.id == "len" and len(n.args) == 1 and not n.keywords:
            a, t = self.expr(n.args[0])
            if t not in ELEM: refuse(n, "len() of a non-list")
            return ("(Z.of_nat (length %s))" % a, "Z")
        if isinstance(n, ast.Subscript):
            if isinstance(n.slice, ast.Slice): refuse(n, "slice")
            v, t = self.expr(n.value)
            if t in ELEM:
                et = ELEM[t]
                if isinstance(n.value, ast.Name):
                    nat = self.index_by_construction(n.value.id, n.slice)
                    if nat is not None: return ("(nth %s %s %s)" % (nat, v, DFLT[et]), et)
                i, ti = self.expr(n.slice)
                if ti != "Z": refuse(n, "list index is not an integer")
                self.cur.append("(py_index_ok %s %s)" % (v, i))
                return ("(py_index %s %s %s)" % (v, i, DFLT[et]), et)
            return X.Tr.expr(self, n)
        if isinstance(n, ast.Tuple):
            if len(n.elts) != 2: refuse(n, "tuple that is not a pair")
            parts = []
            for e in n.elts:
                d = dotted(e.operand) if isinstance(e, ast.UnaryOp) and isinstance(e.op, ast.USub) else dotted(e)
                if d == "math.inf":
                    nm = "inf_%d" % len(self.infs); self.infs.append(nm); parts.append(nm); continue
                a, t = self.expr(e)
                if t != "Z": refuse(n, "pair of non-integers")
                parts.append(a)
            return ("(%s, %s)" % tuple(parts), "ZZ")
        if isinstance(n, ast.List):
            if not n.elts: refuse(n, "empty list literal outside an accumulator initialisation")
            parts = [self.expr(e) for e in n.elts]
            if len(set(t for _, t in parts)) != 1 or parts[0][1] not in LISTOF: refuse(n, "list literal of mixed / unsupported element type")
            acc = "nil"
            for a, _ in reversed(parts): acc = "(cons %s %s)" % (a, acc)
            return (acc, LISTOF[parts[0][1]])
        if isinstance(n, ast.BinOp) and isinstance(n.op, ast.Add):
            a, ta = self.expr(n.left)
            if ta in ELEM:
                b, tb = self.expr(n.right)
                if tb != ta: refuse(n, "concatenation of lists of different type")
                return ("(app %s %s)" % (a, b), ta)
        if isinstance(n, ast.Call) and isinstance(n.func, ast.Name) and n.func.id in self.known and not n.keywords:
            cname, ptypes, rt, extra = self.known[n.func.id]
            if len(n.args) != len(ptypes): refuse(n, "call with another number of arguments (defaults are not modelled)")
            args = []
            for a, want in zip(n.args, ptypes):
                c, t = self.expr(a)
                if t != want: refuse(n, "argument of type %s where %s is expected" % (t, want))
                args.append(c)
            ex = []
            for _ in range(extra):
                nm = "inf_%d" % len(self.infs); self.infs.append(nm); ex.append(nm)
            return ("(%s %s)" % (cname, " ".join(ex + args)), rt)
        if isinstance(n, ast.Compare):
            terms = [n.left] + n.comparators; cs = []
            for x, op, y in zip(terms, n.ops, terms[1:]):
                a, ta = self.expr(x); b, tb = self.expr(y)
                if ta != "Z" or tb != "Z": refuse(n, "comparison of %s with %s (only integers are compared)" % (ta, tb))
                f = {ast.Lt: "Z.ltb", ast.LtE: "Z.leb", ast.Gt: "Z.gtb", ast.GtE: "Z.geb", ast.Eq: "Z.eqb", ast.NotEq: "Z.eqb"}.get(type(op))
                if f is None: refuse(n, "comparison operator other than < <= > >= == != (`in`, `is` are not translated)")
                c = "(%s %s %s)" % (f, a, b)
                cs.append("(negb %s)" % c if isinstance(op, ast.NotEq) else c)
            acc = cs[0]
            for c in cs[1:]: acc = "(andb %s %s)" % (acc, c)
            return (acc, "bool")
        if isinstance(n, ast.Attribute) and dotted(n) == "math.inf": refuse(n, "math.inf outside a pair")
        return X.Tr.expr(self, n)


    def branches(self, c, fa, fb):
        """translate the two branches of `if c` with their own condition lists; the conditions become (if c then .. else ..)"""
        saved = self.cur
        self.cur = []; a = fa(); ca = conj(self.cur)
        self.cur = []; b = fb(); cb = conj(self.cur)
        self.cur = saved
        if ca != "true" or cb != "true": self.cur.append("(if %s then %s else %s)" % (c, ca, cb))
        return a, b
    def block(self, stmts):
        """straight-line statements that return on every path -> (coq, type); as translate_extra.Tr.block, with branch-sensitive conditions"""
        stmts = strip(stmts)
        if not stmts: raise Refuse("a path falls off the end of the function (implicit None)")
        s, rest = stmts[0], stmts[1:]
        if isinstance(s, ast.Return):
            if s.value is None: refuse(s, "bare return")
            if rest: refuse(rest[0], "statement after return")
            return self.expr(s.value)
        if isinstance(s, ast.Assign) and len(s.targets) == 1 and isinstance(s.targets[0], ast.Name):
            v, t = self.expr(s.value); name = s.targets[0].id
            if name in self.env: refuse(s, "re-assignment")
            saved = dict(self.env); self.env[name] = (coq_ident(name), t); self.locals.add(name)
            body, tb = self.block(rest); self.env = saved
            return ("(let %s := %s in %s)" % (coq_ident(name), v, body), tb)
        if isinstance(s, ast.If):
            c, tc = self.expr(s.test)
            if tc != "bool": refuse(s, "if on a non-bool (truthiness is not modelled)")
            saved = dict(self.env)
            def fa():
                r = self.block(list(s.body) + ([] if X.always_returns(s.body) else list(rest))); self.env = dict(saved); return r
            def fb():
                r = self.block(list(s.orelse) + ([] if X.always_returns(s.orelse) else list(rest))); self.env = dict(saved); return r
            (a, ta), (b, tb) = self.branches(c, fa, fb)
            if ta != tb: refuse(s, "branches of different type")
            return ("(if %s then %s else %s)" % (c, a, b), ta)
        for cls, what in ((ast.While, "while loop"), (ast.For, "second loop / loop in a branch"), (ast.Assert, "assert other than `assert len(a) == len(b)` in front of the function"),
                          (ast.AugAssign, "augmented assignment outside the loop")):
            if isinstance(s, cls): refuse(s, what)
        refuse(s, "unsupported statement")


def conj(conds):
    out = []
    for c in conds:
        if c != "true" and c not in out: out.append(c)
    if not out: return "true"
    acc = out[0]
    for c in out[1:]: acc = "(andb %s %s)" % (acc, c)
    return acc


class Fold:
    def __init__(self, fn, ptypes, known):
        self.fn = fn; self.name = fn.name
        a = fn.args
        if a.vararg or a.kwarg or a.kwonlyargs or a.posonlyargs or a.defaults: refuse(fn, "signature with defaults / *args / **kwargs")
        if fn.decorator_list: refuse(fn, "decorated function")
        self.params = [x.arg for x in a.args]
        if len(self.params) != len(ptypes): refuse(fn, "signature changed (expected %d parameters)" % len(ptypes))
        self.ptypes = ptypes
        self.tr = LE({p: (coq_ident(p), t) for p, t in zip(self.params, ptypes)}, known)
        self.accs = []            # [name]; types in self.tr.env (None until the first append for list accumulators)
        self.exit = None          # None | "break" | "return"
        self.rtype = None
    # ------------------------------------------------------------------ state tuples
    def comps(self, flag):
        c = [coq_ident(a) for a in self.accs]
        if self.exit: c = [flag] + c
        return c
    def tup(self, flag=None):
        c = self.comps(flag if flag is not None else ("false" if self.exit == "break" else "None"))
        if not c: return "tt"
        return c[0] if len(c) == 1 else "(" + ", ".join(c) + ")"
    def state_type(self):
        ts = []
        if self.exit == "break": ts.append("bool")
        if self.exit == "return": ts.append("(option %s)" % COQT[self.rtype])
        for a in self.accs:
            t = self.tr.env[a][1]
            if t is None: raise Refuse("%s: list accumulator %s is never appended to (its element type is unknown)" % (self.name, a))
            ts.append(COQT[t])
        if not ts: return "unit"
        return ts[0] if len(ts) == 1 else "(" + " * ".join(ts) + ")"
    # ------------------------------------------------------------------ loop body
    def body(self, stmts, tail=True):
        stmts = strip(stmts)
        if not stmts: return self.tup()
        s, rest = stmts[0], stmts[1:]
        env = self.tr.env
        if isinstance(s, ast.Continue):
            if rest or not tail: refuse(s, "`continue` that is not the last statement of a path through the loop body")
            return self.tup()
        if isinstance(s, ast.Pass): return self.body(rest, tail)
        if isinstance(s, ast.Expr) and isinstance(s.value, ast.Call) and isinstance(s.value.func, ast.Attribute) and s.value.func.attr == "append" \
                and isinstance(s.value.func.value, ast.Name) and len(s.value.args) == 1 and not s.value.keywords:
            acc = s.value.func.value.id
            if acc not in self.accs or (env[acc][1] is not None and env[acc][1] not in ELEM): refuse(s, "append to something that is not a list accumulator")
            e, t = self.tr.expr(s.value.args[0])
            if t not in LISTOF: refuse(s, "appended value of unsupported type %s" % t)
            if env[acc][1] is None: env[acc] = (env[acc][0], LISTOF[t])
            elif env[acc][1] != LISTOF[t]: refuse(s, "appended values of different types")
            return "(let %s := (app %s (cons %s nil)) in %s)" % (env[acc][0], env[acc][0], e, self.body(rest, tail))
        if isinstance(s, ast.AugAssign) and isinstance(s.target, ast.Name) and isinstance(s.op, (ast.Add, ast.Sub)):
            acc = s.target.id
            if acc not in self.accs or env[acc][1] != "Z": refuse(s, "+= / -= on something that is not an integer accumulator")
            e, t = self.tr.expr(s.value)
            if t != "Z": refuse(s, "+= / -= of a non-integer")
            return "(let %s := (Z.%s %s %s) in %s)" % (env[acc][0], "add" if isinstance(s.op, ast.Add) else "sub", env[acc][0], e, self.body(rest, tail))
        if isinstance(s, ast.Assign) and len(s.targets) == 1 and isinstance(s.targets[0], ast.Name):
            nm = s.targets[0].id
            e, t = self.tr.expr(s.value)
            if nm in self.accs:
                if env[nm][1] in ELEM or env[nm][1] is None or env[nm][1] != t: refuse(s, "re-assignment of an accumulator that is not a scalar of the same type")
                return "(let %s := %s in %s)" % (env[nm][0], e, self.body(rest, tail))
            if nm in env: refuse(s, "assignment to a parameter / the loop variable / an existing temporary")
            env[nm] = (coq_ident(nm), t); self.tr.locals.add(nm)
            r = "(let %s := %s in %s)" % (coq_ident(nm), e, self.body(rest, tail))
            del env[nm]
            return r
        if isinstance(s, ast.If):
            c, tc = self.tr.expr(s.test)
            if tc != "bool": refuse(s, "if on a non-bool (truthiness is not modelled)")
            last = tail and not rest
            saved = dict(env)
            def fa():
                r = self.body(s.body, last); self.restore(saved); return r
            def fb():
                r = self.body(s.orelse, last); self.restore(saved); return r
            a, b = self.tr.branches(c, fa, fb)
            v = "(if %s then %s else %s)" % (c, a, b)
            return v if not rest else self.bind_noflag(v, self.body(rest, tail))
        for cls, what in ((ast.For, "nested loop"), (ast.While, "while loop"), (ast.Return, "return inside the loop other than `if <cond>: return <expr>` as its first statement"),
                          (ast.Break, "break other than `if <cond>: break` as the first statement of the loop body"), (ast.Assert, "assert inside the loop"),
                          (ast.Assign, "assignment to a subscript / attribute / several targets"), (ast.AugAssign, "augmented assignment other than += / -= on an integer accumulator")):
            if isinstance(s, cls): refuse(s, what)
        refuse(s, "unsupported statement in the loop body")
    def restore(self, saved):
        """forget the temporaries of a branch, keep what was learnt about the element types of list accumulators"""
        for k in list(self.tr.env):
            if k not in saved: del self.tr.env[k]
    def bind_noflag(self, value, rest):
        """inside the body the exit flag is not part of the intermediate tuples' meaning: it is constant there"""
        c = self.comps("_")
        if not c: return "(let _ := %s in %s)" % (value, rest)
        if len(c) == 1: return "(let %s := %s in %s)" % (c[0], value, rest)
        return "(let '(%s) := %s in %s)" % (", ".join(c), value, rest)
    # ------------------------------------------------------------------ the whole function
    def translate(self):
        tr = self.tr; env = tr.env
        body = strip(self.fn.body)
        # the one-liner list(map(lambda x: e, l))
        if len(body) == 1 and isinstance(body[0], ast.Return) and isinstance(body[0].value, ast.Call) and dotted(body[0].value.func) == "list" and len(body[0].value.args) == 1:
            m = body[0].value.args[0]
            if not (isinstance(m, ast.Call) and dotted(m.func) == "map" and len(m.args) == 2 and isinstance(m.args[0], ast.Lambda) and isinstance(m.args[1], ast.Name)): refuse(m, "list(...) of something other than map(lambda x: ..., <parameter>)")
            lam = m.args[0]; l, tl = tr.expr(m.args[1])
            if tl not in ELEM or len(lam.args.args) != 1 or lam.args.defaults or lam.args.vararg or lam.args.kwarg: refuse(m, "map over a non-list / lambda of several arguments")
            x = lam.args.args[0].arg
            if x in env: refuse(lam, "lambda variable shadows a name")
            env[x] = (coq_ident(x), ELEM[tl]); e, te = tr.expr(lam.body); del env[x]
            if te not in LISTOF: refuse(lam, "lambda result of unsupported type")
            self.rtype = LISTOF[te]
            return self.finish("(map (fun %s => %s) %s)" % (coq_ident(x), e, l), [])
        pos = 0
        for x in ast.walk(self.fn):
            if isinstance(x, ast.While): refuse(x, "while loop")
        if sum(1 for x in ast.walk(self.fn) if isinstance(x, ast.For)) > 1: refuse(self.fn, "more than one for loop")
        # asserts
        while pos < len(body) and isinstance(body[pos], ast.Assert):
            t = body[pos].test
            ok = (isinstance(t, ast.Compare) and len(t.ops) == 1 and isinstance(t.ops[0], ast.Eq) and body[pos].msg is None
                  and all(isinstance(z, ast.Call) and dotted(z.func) == "len" and len(z.args) == 1 and isinstance(z.args[0], ast.Name) and env.get(z.args[0].id, (0, 0))[1] in ELEM for z in (t.left, t.comparators[0])))
            if not ok:
                # any other boolean expression of the parameters in the integer fragment: a conjunct of the precondition
                if body[pos].msg is not None: refuse(body[pos], "assert with a message")
                c, tc = tr.expr(t)
                if tc != "bool": refuse(body[pos], "assert on a non-bool (truthiness is not modelled)")
                tr.cur.append(c); pos += 1; continue
            a, b = t.left.args[0].id, t.comparators[0].args[0].id
            tr.samelen.append({a, b}); tr.cur.append("(Nat.eqb (length %s) (length %s))" % (env[a][0], env[b][0]))
            pos += 1
        # merge the equal-length classes
        merged = True
        while merged:
            merged = False
            for i in range(len(tr.samelen)):
                for j in range(i + 1, len(tr.samelen)):
                    if tr.samelen[i] & tr.samelen[j]: tr.samelen[i] |= tr.samelen.pop(j); merged = True; break
                if merged: break
        if not any(isinstance(x, ast.For) for x in ast.walk(self.fn)):
            # loop-free: guards / temporaries / return in the expression fragment (calls of translated functions, list concatenation, subscripts)
            res, self.rtype = tr.block(body[pos:])
            if self.rtype not in COQT: refuse(self.fn, "result of unsupported type")
            return self.finish(res, [])
        # guards `if c: return e`
        guards = []
        while pos < len(body) and isinstance(body[pos], ast.If) and not body[pos].orelse and len(strip(body[pos].body)) == 1 and isinstance(strip(body[pos].body)[0], ast.Return) \
                and not any(isinstance(x, ast.For) for x in ast.walk(body[pos])):
            c, tc = tr.expr(body[pos].test)
            if tc != "bool": refuse(body[pos], "guard on a non-bool")
            r = strip(body[pos].body)[0]
            if r.value is None: refuse(r, "bare return")
            e, te = tr.expr(r.value)
            guards.append((c, e, te)); pos += 1
        uncond = tr.cur; tr.cur = []          # from here on: needed only when no guard returns before
        # accumulators
        inits = []
        while pos < len(body) and isinstance(body[pos], ast.Assign):
            s = body[pos]
            if len(s.targets) != 1 or not isinstance(s.targets[0], ast.Name): refuse(s, "initialisation of something that is not a plain name")
            nm = s.targets[0].id
            if nm in env: refuse(s, "accumulator shadows a parameter / is initialised twice")
            if isinstance(s.value, ast.List) and not s.value.elts: inits.append("nil"); env[nm] = (coq_ident(nm), None)
            else:
                if isinstance(s.value, ast.Constant) and s.value.value is None: refuse(s, "None as an accumulator")
                e, t = tr.expr(s.value)
                if t not in ("Z", "bool", "ZZ"): refuse(s, "accumulator of unsupported type %s" % t)
                inits.append(e); env[nm] = (coq_ident(nm), t)
            self.accs.append(nm); tr.locals.add(nm); pos += 1
        if pos >= len(body): refuse(self.fn, "no loop found where one is expected")
        # the loop, optionally under one `if`
        wrap = None; lp = body[pos]
        if isinstance(lp, ast.If) and not lp.orelse and len(strip(lp.body)) == 1 and isinstance(strip(lp.body)[0], ast.For):
            wrap, tw = tr.expr(lp.test)
            if tw != "bool": refuse(lp, "if on a non-bool around the loop")
            lp = strip(lp.body)[0]
        if isinstance(lp, ast.While): refuse(lp, "while loop")
        if not isinstance(lp, ast.For): refuse(lp, "statement where the loop is expected (one `for`, optionally under one `if` without else)")
        if lp.orelse: refuse(lp, "for ... else")
        if not isinstance(lp.target, ast.Name): refuse(lp, "loop target that is not a plain name (tuple unpacking / enumerate / zip are not translated)")
        var = lp.target.id
        if var in env: refuse(lp, "loop variable shadows a name")
        it = lp.iter
        if isinstance(it, ast.Name) and env.get(it.id, (0, 0))[1] in ELEM and it.id in self.params:
            tr.loop = dict(kind="elem", var=var); env[var] = (coq_ident(var), ELEM[env[it.id][1]])
            iterlist = env[it.id][0]; vart = COQT[ELEM[env[it.id][1]]]
        elif isinstance(it, ast.Call) and dotted(it.func) == "range" and not it.keywords and all(not isinstance(x, ast.Starred) for x in it.args) and len(it.args) in (1, 2):
            if len(it.args) == 2:
                if not (isinstance(it.args[0], ast.Constant) and it.args[0].value == 0 and not isinstance(it.args[0].value, bool)): refuse(it, "range(a, b) with a lower bound other than the literal 0")
            hi = it.args[-1]; base = None; k = 0
            def is_len(z): return isinstance(z, ast.Call) and dotted(z.func) == "len" and len(z.args) == 1 and isinstance(z.args[0], ast.Name) and z.args[0].id in self.params and env[z.args[0].id][1] in ELEM
            if is_len(hi): base = hi.args[0].id
            elif isinstance(hi, ast.BinOp) and isinstance(hi.op, ast.Sub) and is_len(hi.left) and isinstance(hi.right, ast.Constant) and isinstance(hi.right.value, int) and not isinstance(hi.right.value, bool) and hi.right.value >= 0:
                base = hi.left.args[0].id; k = hi.right.value
            if base is not None:
                tr.loop = dict(kind="range_len", var=var, base=base, k=k)
                iterlist = "(seq 0 (Nat.sub (length %s) %d%%nat))" % (env[base][0], k) if k else "(seq 0 (length %s))" % env[base][0]
            else:
                e, te = tr.expr(hi)
                if te != "Z": refuse(it, "range bound that is not an integer expression")
                tr.loop = dict(kind="range_z", var=var)
                iterlist = "(seq 0 (Z.to_nat %s))" % e
            env[var] = (coq_ident(var), "idx"); vart = "nat"
        else:
            refuse(it, "loop over something other than a list parameter or range(...) of the accepted forms (range(*x), zip, enumerate, slices are not translated)")
        lb = strip(lp.body)
        if wrap is not None: wrap_outer = tr.cur; tr.cur = []
        outer_conds = tr.cur; tr.cur = []        # conditions of the loop body: for every iteration
        # exit at the top of the body
        exit_c = exit_e = None
        if lb and isinstance(lb[0], ast.If) and not lb[0].orelse and len(strip(lb[0].body)) == 1 and isinstance(strip(lb[0].body)[0], (ast.Break, ast.Return)):
            tr.in_loop = True
            exit_c, tc = tr.expr(lb[0].test)
            if tc != "bool": refuse(lb[0], "exit test on a non-bool")
            st = strip(lb[0].body)[0]
            if isinstance(st, ast.Break): self.exit = "break"
            else:
                if st.value is None: refuse(st, "bare return")
                exit_e, self.rtype = tr.expr(st.value); self.exit = "return"
            lb = lb[1:]
        tr.in_loop = True
        stepbody = self.body(lb)
        tr.in_loop = False
        loop_conds = tr.cur; tr.cur = outer_conds
        del env[var]; loopinfo = tr.loop; tr.loop = None
        # post-processing and return
        post, tp = tr.block(body[pos + 1:])
        if self.rtype is not None and tp != self.rtype: refuse(self.fn, "return inside the loop and final return of different types")
        self.rtype = tp
        for c, e, te in guards:
            if te != tp: refuse(self.fn, "guard returns another type than the function")
        if tp not in COQT: refuse(self.fn, "result of unsupported type")
        S = self.state_type()
        v = coq_ident(var)
        if self.exit == "break":
            step = self.bind_flag("stop_", "(if stop_ then st_ else (if %s then %s else %s))" % (exit_c, self.tup("true"), stepbody))
        elif self.exit == "return":
            step = self.bind_flag("ret_", "(match ret_ with Some _ => st_ | None => (if %s then %s else %s) end)" % (exit_c, self.tup("(Some %s)" % exit_e), stepbody))
        else:
            step = self.bind_flag(None, stepbody)
        init = self.tup_of(([] if not self.exit else ["false" if self.exit == "break" else "None"]) + inits)
        sig = self.sig()
        defs = ["Definition py_%s_step %s (st_ : %s) (%s : %s) : %s := %s." % (self.name, sig, S, v, vart, S, step)]
        fold = "(fold_left (py_%s_step %s) %s %s)" % (self.name, self.args(), iterlist, init)
        if wrap is not None: fold = "(if %s then %s else %s)" % (wrap, fold, init)
        if self.exit == "return": post = "(match ret_ with Some r_ => r_ | None => %s end)" % post
        res = self.bind_flag("stop_" if self.exit == "break" else "ret_" if self.exit else None, post, fold)
        for c, e, _ in reversed(guards): res = "(if %s then %s else %s)" % (c, e, res)
        late = tr.cur                       # post-processing conditions were appended to outer_conds (= tr.cur)
        lc = conj(loop_conds)
        if lc != "true":
            lc = "(forallb (fun %s => %s) %s)" % (v, lc, iterlist)
            if wrap is not None: lc = "(if %s then %s else true)" % (wrap, lc)
            late.append(lc)
        if wrap is not None: late = wrap_outer + late
        cond = conj(late)
        if cond != "true":
            for g, _, _ in reversed(guards): cond = "(orb %s %s)" % (g, cond)
        return self.finish(res, defs, uncond + [cond])
    def tup_of(self, parts):
        if not parts: return "tt"
        return parts[0] if len(parts) == 1 else "(" + ", ".join(parts) + ")"
    def bind_flag(self, flag, rest, value="st_"):
        c = ([flag] if flag else []) + [coq_ident(a) for a in self.accs]
        if not c: return "(let _ := %s in %s)" % (value, rest)
        if len(c) == 1: return "(let %s := %s in %s)" % (c[0], value, rest)
        return "(let '(%s) := %s in %s)" % (", ".join(c), value, rest)
    def sig(self): return " ".join(["(%s : Z)" % i for i in self.tr.infs] + ["(%s : %s)" % (coq_ident(p), COQT[t]) for p, t in zip(self.params, self.ptypes)])
    def args(self): return " ".join(self.tr.infs + [coq_ident(p) for p in self.params])
    def finish(self, res, defs, pre=None):
        import re
        cond = conj(pre if pre is not None else self.tr.cur)
        for nm in self.tr.locals:
            if re.search(r"(?<![A-Za-z0-9_.])%s(?![A-Za-z0-9_'])" % re.escape(coq_ident(nm)), cond) and nm not in self.params:
                raise Refuse("%s: the in-range condition of a subscript depends on the temporary / accumulator `%s` (state-dependent indices are not translated)" % (self.name, nm))
        sig = self.sig()
        out = list(defs)
        out.append("Definition py_%s %s : %s := %s." % (self.name, sig, COQT[self.rtype], res))
        out.append("Definition py_%s_pre %s : bool := %s." % (self.name, sig, cond))
        return out


# function -> (file, parameter types, required).  Required functions must translate (otherwise the whole translator refuses: a model is
# bridged to them); the others are attempted on every run and the construct that does not fit is recorded as a comment in Loops.v.
TARGETS = [
    ("src/common.py", "intervals_total_length", ["LZZ"], True),
    ("src/common.py", "junctions_from_blocks", ["LZZ"], True),
    ("src/common.py", "get_exons", ["ZZ", "LZZ"], True),
    ("src/common.py", "correct_bam_coords", ["LZZ"], True),
    ("src/common.py", "count_both_present_features", ["LZ", "LZ"], True),
    ("src/common.py", "all_features_present", ["LZ", "LZ"], True),
    ("src/common.py", "has_inconsistent_features", ["LZ", "LZ"], True),
    ("src/common.py", "mask_profile", ["LZ", "LZ"], True),
    ("src/common.py", "get_blocks_from_profile", ["LZZ", "LZ"], True),
    ("src/polya_verification.py", "shift_polya", ["LZZ", "Z", "Z"], True),
    ("src/polya_verification.py", "shift_polyt", ["LZZ", "Z", "Z"], True),
    ("src/common.py", "concat_gapless_blocks", ["LZZ", "LZZ"], False),
    ("src/common.py", "get_exon", ["ZZ", "LZZ", "Z"], False),
    ("src/common.py", "get_following_exon_from_junctions", ["ZZ", "LZZ", "Z"], True),
    ("src/common.py", "get_preceding_exon_from_junctions", ["ZZ", "LZZ", "Z"], True),
    ("src/common.py", "is_subprofile", ["LZ", "LZ"], False),
    ("src/common.py", "difference_in_present_features", ["LZ", "LZ", "Z", "ZZ"], False),
    ("src/common.py", "equal_profiles_in_range", ["LZ", "LZ", "ZZ"], False),
    ("src/common.py", "find_matching_positions", ["LZ", "LZ"], False),
    ("src/common.py", "has_overlapping_features", ["LZ", "LZ", "ZZ"], False),
    ("src/common.py", "left_truncated", ["LZ", "LZ"], False),
    ("src/common.py", "right_truncated", ["LZ", "LZ"], False),
    ("src/common.py", "sum_intervals_to_point", ["LZZ", "Z"], False),
    ("src/common.py", "sum_intervals_from_point", ["LZZ", "Z"], False),
    ("src/common.py", "truncate_read_to_polya", ["LZZ", "Z", "Z"], False),
]

def main():
    out = ["(* GENERATED by translate_loops.py from %s -- do not edit *)" % REPO,
           "From Coq Require Import ZArith List Bool. From IQ.gen Require Import Prims. Import ListNotations.",
           "(* Python's l[i] with negative wrap-around (total: the default is returned outside the list) and its in-range condition *)"] + SUPPORT + [""]
    trees = {}
    known = {}
    for name, kinds in P.FUNCS.items():
        known[name] = ("py_" + name, [{"r": "ZZ", "z": "Z"}[k] for k in kinds], None, 0)
    # result types of the loop-free functions of gen/Prims.v (translate_prims.py checks them; here only what the fragment calls is listed)
    PRIM_RESULT = {"interval_len": "Z", "overlaps": "bool", "contains": "bool", "left_of": "bool", "intersection_len": "Z", "equal_ranges": "bool"}
    known = {k: (v[0], v[1], PRIM_RESULT[k], 0) for k, v in known.items() if k in PRIM_RESULT}
    refused = []
    for path, name, ptypes, required in TARGETS:
        if path not in trees: trees[path] = X.parse(path)
        try:
            fn = X.top_func(trees[path], name)
            f = Fold(fn, ptypes, known)
            defs = f.translate()
        except Refuse as e:
            if required: raise Refuse("%s (required): %s" % (name, e))
            refused.append((name, str(e))); continue
        out.append("(* %s:%s *)" % (path, name))
        out += defs + [""]
        known[name] = ("py_" + name, ptypes, f.rtype, len(f.tr.infs))
    out.append("(* functions of the candidate list that do not fit the fragment, and the first construct that does not fit:")
    for name, why in refused: out.append("   %s: %s" % (name, why.replace("*)", "* )").replace("(*", "( *").replace("\n", " ").replace(chr(34), chr(39))))
    out.append("*)")
    print("\n".join(out))

if __name__ == "__main__":
    try: main()
    except Refuse as e: sys.stderr.write("TRANSLATOR REFUSES: %s\n" % e); sys.exit(3)
