#!/usr/bin/env python3
"""Fail-closed extraction of further constants and loop-free functions of IsoQuant into Coq (coq/gen/Extra.v).
   What is read (every other AST shape is refused with a message naming the construct):
     1. src/common.py            CANONICAL_FWD_SITES / CANONICAL_REV_SITES          -> lists of pairs of byte lists
     2. src/long_read_counter.py CountingStrategy (+ predicates), COUNTING_STRATEGIES, CountingStrategyFlags.__init__,
                                 ReadWeightCounter.process_inconsistent / process_ambiguous (floats read as exact rationals),
                                 GroupedOutputFormat (+ predicates)
     3. src/common.py            TranscriptNaming string constants                   -> byte lists
     4. src/common.py            CigarEvent (+ get_match_events / get_ins_del_match_events)
     5. src/polya_finder.py      PolyAFinder.__init__ defaults, polyA_count, the external / internal search windows
        src/polya_verification.py PolyAFixer.count_polya_exons / count_polyt_exons: sentinel, scan direction, break test, exon test
     6. src/dataset_processor.py PolyAUsageStrategies, set_polya_requirement_strategy
   Conventions of the output: integers are Z, strings are lists of byte values (Z), Python floats are exact rationals (Q) written as
   the decimal literal of the source; `x / y` is Qdiv (Python raises ZeroDivisionError for y = 0: the models guard every division
   with 0 < y); `logger.<level>(...)` statements and docstrings are skipped; every operator is printed by its function name so that
   the text does not depend on open notation scopes."""
import ast, sys, os
from fractions import Fraction
REPO = sys.argv[1] if len(sys.argv) > 1 else "/repo"


class Refuse(Exception): pass
def refuse(node, why): raise Refuse("%s at line %s: %s" % (why, getattr(node, "lineno", "?"), ast.unparse(node)[:100]))

def parse(path):
    try: return ast.parse(open(os.path.join(REPO, path)).read())
    except OSError as e: raise Refuse("cannot read %s: %s" % (path, e))
def top_class(tree, name):
    hits = [n for n in tree.body if isinstance(n, ast.ClassDef) and n.name == name]
    if len(hits) != 1: raise Refuse("class %s: %d definitions" % (name, len(hits)))
    return hits[0]
def top_assign(tree, name):
    hits = [n for n in tree.body if isinstance(n, ast.Assign) and len(n.targets) == 1 and isinstance(n.targets[0], ast.Name) and n.targets[0].id == name]
    if len(hits) != 1: raise Refuse("top-level assignment %s: %d definitions" % (name, len(hits)))
    return hits[0].value
def top_func(tree, name):
    hits = [n for n in tree.body if isinstance(n, ast.FunctionDef) and n.name == name]
    if len(hits) != 1: raise Refuse("function %s: %d definitions" % (name, len(hits)))
    return hits[0]
def method(cls, name):
    hits = [n for n in cls.body if isinstance(n, ast.FunctionDef) and n.name == name]
    if len(hits) != 1: raise Refuse("method %s.%s: %d definitions" % (cls.name, name, len(hits)))
    return hits[0]

def is_doc(s): return isinstance(s, ast.Expr) and isinstance(s.value, ast.Constant) and isinstance(s.value.value, str)
def is_log(s):
    return (isinstance(s, ast.Expr) and isinstance(s.value, ast.Call) and isinstance(s.value.func, ast.Attribute) and isinstance(s.value.func.value, ast.Name)
            and s.value.func.value.id == "logger" and s.value.func.attr in ("debug", "info", "warning"))
def strip(body): return [s for s in body if not is_doc(s) and not is_log(s)]
def plain_params(fn, want):
    a = fn.args
    if a.vararg or a.kwarg or a.kwonlyargs or a.posonlyargs or [x.arg for x in a.args] != want: refuse(fn, "signature is not (%s)" % ", ".join(want))
    return a.defaults
def dotted(n):
    """a.b.c -> 'a.b.c' (names and attributes only)"""
    if isinstance(n, ast.Name): return n.id
    if isinstance(n, ast.Attribute):
        d = dotted(n.value)
        return None if d is None else d + "." + n.attr
    return None

RESERVED = ("all", "none", "at", "in", "if", "then", "else", "fun", "match", "end", "with", "Type", "Set", "Prop", "return", "let", "as", "forall", "exists", "using", "where", "for", "fix", "cofix")
def coq_ident(s):
    if not s.isidentifier() or not s.isascii(): raise Refuse("identifier %r cannot be used in Coq" % s)
    return s + "_" if s in RESERVED else s
def zlit(v): return "(%d)%%Z" % v
def qlit(v):
    f = Fraction(repr(v)) if isinstance(v, float) else Fraction(v)          # the decimal literal as written
    return "(Qmake (%d)%%Z %d%%positive)" % (f.numerator, f.denominator)
def bytes_of(node):
    if not (isinstance(node, ast.Constant) and isinstance(node.value, str)): refuse(node, "not a string literal")
    if not node.value.isascii(): refuse(node, "non-ASCII string literal")
    return "[" + "; ".join("%d" % b for b in node.value.encode("ascii")) + "]%Z"

# ---------------------------------------------------------------------------------------------------------------- enums
def enum_members(cls):
    """[(name, int)] of an Enum class whose body has only `name = <int literal>` lines, methods, docstrings"""
    if [dotted(b) for b in cls.bases] != ["Enum"]: refuse(cls, "not a plain Enum subclass")
    for d in cls.decorator_list:
        if dotted(d) != "unique": refuse(d, "unexpected class decorator")
    out = []
    for n in cls.body:
        if isinstance(n, ast.Assign):
            if len(n.targets) != 1 or not isinstance(n.targets[0], ast.Name): refuse(n, "enum member shape")
            v = n.value
            if not (isinstance(v, ast.Constant) and isinstance(v.value, int) and not isinstance(v.value, bool)): refuse(n, "enum value is not an int literal")
            out.append((n.targets[0].id, v.value))
        elif isinstance(n, ast.FunctionDef) or is_doc(n) or isinstance(n, ast.Pass): continue
        else: refuse(n, "unexpected statement in enum")
    if not out: refuse(cls, "enum without members")
    if len(set(a for a, _ in out)) != len(out): refuse(cls, "duplicate enum member names")
    if len(set(b for _, b in out)) != len(out): refuse(cls, "duplicate enum values (aliases are not modelled)")
    return out

def emit_enum(t, members):
    cons = ["%s_%s" % (t, coq_ident(m)) for m, _ in members]
    return ["Inductive %s := %s." % (t, " | ".join(cons)),
            "Definition %s_value (x:%s) : Z := match x with %s end." % (t, t, " ".join("| %s => %s" % (c, zlit(v)) for c, (_, v) in zip(cons, members))),
            "Definition %s_all : list %s := [%s]." % (t, t, "; ".join(cons)),
            "Definition %s_eqb (a b:%s) : bool := Z.eqb (%s_value a) (%s_value b)." % (t, t, t, t),
            "Definition %s_mem (x:%s) (l:list %s) : bool := existsb (%s_eqb x) l." % (t, t, t, t)]
def emit_set(name, t, members): return ["Definition %s : list %s := [%s]." % (name, t, "; ".join("%s_%s" % (t, coq_ident(m)) for m in members))]

def member_list(node, owner, members, kinds=(ast.List, ast.Set)):
    """literal list/set of `Owner.member` (owner may be several accepted spellings, e.g. the class name or `cls`)"""
    if not isinstance(node, kinds): refuse(node, "not a literal list/set of %s members" % owner[0])
    out = []
    for e in node.elts:
        if not (isinstance(e, ast.Attribute) and isinstance(e.value, ast.Name) and e.value.id in owner): refuse(e, "not a %s member reference" % owner[0])
        if e.attr not in members: refuse(e, "unknown %s member" % owner[0])
        if e.attr in out: refuse(e, "member listed twice")
        out.append(e.attr)
    return out

def self_in_pred(cls, name, members):
    """def name(self): return self in [Enum.a, ...]"""
    fn = method(cls, name)
    if fn.decorator_list: refuse(fn, "decorated predicate")
    plain_params(fn, ["self"])
    body = strip(fn.body)
    if len(body) != 1 or not isinstance(body[0], ast.Return): refuse(fn, "predicate body is not a single return")
    c = body[0].value
    if not (isinstance(c, ast.Compare) and len(c.ops) == 1 and isinstance(c.ops[0], ast.In) and isinstance(c.left, ast.Name) and c.left.id == "self"): refuse(c, "predicate is not `self in [...]`")
    return member_list(c.comparators[0], (cls.name,), members)

def cls_set_method(cls, name, members):
    """@classmethod def name(cls): return {cls.a, ...}"""
    fn = method(cls, name)
    if [dotted(d) for d in fn.decorator_list] != ["classmethod"]: refuse(fn, "not a plain classmethod")
    plain_params(fn, ["cls"])
    body = strip(fn.body)
    if len(body) != 1 or not isinstance(body[0], ast.Return): refuse(fn, "body is not a single return")
    return member_list(body[0].value, ("cls", cls.name), members)

# ---------------------------------------------------------------------------------------------------------------- loop-free code
class Tr:
    """expressions / statement blocks over typed names.  env: python name -> (coq text, type); attrs: dotted attribute path -> (coq text, type).
       Types: 'Z', 'bool', 'Q', 'ZZ' (pair of integers), or the Coq name of a generated enum (compared with <T>_eqb)."""
    def __init__(self, env, attrs, enums): self.env, self.attrs, self.enums = dict(env), dict(attrs), set(enums)
    def expr(self, n):
        if isinstance(n, ast.Constant):
            if isinstance(n.value, bool): return ("true" if n.value else "false", "bool")
            if isinstance(n.value, int): return (zlit(n.value), "Z")
            if isinstance(n.value, float): return (qlit(n.value), "Q")
            refuse(n, "unsupported literal")
        if isinstance(n, ast.Name):
            if n.id not in self.env: refuse(n, "unknown name")
            return self.env[n.id]
        if isinstance(n, ast.Attribute):
            d = dotted(n)
            if d is None or d not in self.attrs: refuse(n, "unknown attribute path")
            return self.attrs[d]
        if isinstance(n, ast.Subscript):
            v, t = self.expr(n.value)
            if t != "ZZ" or not (isinstance(n.slice, ast.Constant) and n.slice.value in (0, 1) and not isinstance(n.slice.value, bool)): refuse(n, "subscript other than pair[0] / pair[1]")
            return ("(%s %s)" % ("fst" if n.slice.value == 0 else "snd", v), "Z")
        if isinstance(n, ast.UnaryOp) and isinstance(n.op, ast.USub):
            if isinstance(n.operand, ast.Constant) and isinstance(n.operand.value, int) and not isinstance(n.operand.value, bool): return (zlit(-n.operand.value), "Z")
            a, t = self.expr(n.operand)
            if t != "Z": refuse(n, "negation of a non-integer")
            return ("(Z.opp %s)" % a, "Z")
        if isinstance(n, ast.UnaryOp) and isinstance(n.op, ast.Not):
            a, t = self.expr(n.operand)
            if t != "bool": refuse(n, "`not` on a non-bool (truthiness is not modelled)")
            return ("(negb %s)" % a, "bool")
        if isinstance(n, ast.BinOp):
            a, ta = self.expr(n.left); b, tb = self.expr(n.right)
            if isinstance(n.op, (ast.Add, ast.Sub, ast.Mult)):
                if ta != "Z" or tb != "Z": refuse(n, "arithmetic on non-integers")
                return ("(Z.%s %s %s)" % ({ast.Add: "add", ast.Sub: "sub", ast.Mult: "mul"}[type(n.op)], a, b), "Z")
            if isinstance(n.op, ast.Div):
                # true division: only <float> / <int or float>, read in exact rationals
                if ta != "Q" or tb not in ("Z", "Q"): refuse(n, "division other than float / number")
                return ("(Qdiv %s %s)" % (a, b if tb == "Q" else "(inject_Z %s)" % b), "Q")
            refuse(n, "unsupported binary operator")
        if isinstance(n, ast.BoolOp):
            parts = [self.expr(v) for v in n.values]
            if any(t != "bool" for _, t in parts): refuse(n, "and/or on non-bool (truthiness is not modelled)")
            f = "andb" if isinstance(n.op, ast.And) else "orb"
            acc = parts[0][0]
            for p, _ in parts[1:]: acc = "(%s %s %s)" % (f, acc, p)          # left-nested, like the || and && notations
            return (acc, "bool")
        if isinstance(n, ast.Compare):
            terms = [n.left] + n.comparators; cs = []
            for x, op, y in zip(terms, n.ops, terms[1:]):
                a, ta = self.expr(x); b, tb = self.expr(y)
                if ta == "Z" and tb == "Z":
                    f = {ast.Lt: "Z.ltb", ast.LtE: "Z.leb", ast.Gt: "Z.gtb", ast.GtE: "Z.geb", ast.Eq: "Z.eqb"}.get(type(op))
                    if f is None: refuse(n, "unsupported integer comparison")
                    cs.append("(%s %s %s)" % (f, a, b))
                elif ta == tb and ta in self.enums and isinstance(op, ast.Eq): cs.append("(%s_eqb %s %s)" % (ta, a, b))
                else: refuse(n, "comparison of %s with %s" % (ta, tb))
            acc = cs[0]
            for c in cs[1:]: acc = "(andb %s %s)" % (acc, c)
            return (acc, "bool")
        if isinstance(n, ast.Call) and isinstance(n.func, ast.Name) and not n.keywords:
            if n.func.id == "float" and len(n.args) == 1:
                a, t = self.expr(n.args[0])
                if t != "Z": refuse(n, "float() of a non-integer")
                return ("(inject_Z %s)" % a, "Q")
            if n.func.id in ("max", "min") and len(n.args) == 2:
                a, ta = self.expr(n.args[0]); b, tb = self.expr(n.args[1])
                if ta != "Z" or tb != "Z": refuse(n, "max/min of non-integers")
                return ("(Z.%s %s %s)" % (n.func.id, a, b), "Z")
        refuse(n, "unsupported expression")
    def block(self, stmts):
        """statements that return on every path -> (coq, type)"""
        stmts = strip(stmts)
        if not stmts: raise Refuse("a path falls off the end of the function (implicit None)")
        s, rest = stmts[0], stmts[1:]
        if isinstance(s, ast.Return):
            if s.value is None: refuse(s, "bare return")
            if rest: refuse(rest[0], "statement after return")
            return self.expr(s.value)
        if isinstance(s, ast.Assign) and len(s.targets) == 1 and isinstance(s.targets[0], ast.Name):
            v, t = self.expr(s.value); name = s.targets[0].id
            if name in self.env: refuse(s, "re-assignment")
            saved = dict(self.env); self.env[name] = (coq_ident(name), t)
            body, tb = self.block(rest); self.env = saved
            return ("(let %s := %s in %s)" % (coq_ident(name), v, body), tb)
        if isinstance(s, ast.If):
            c, tc = self.expr(s.test)
            if tc != "bool": refuse(s, "if on a non-bool (truthiness is not modelled)")
            a, ta = self.block(list(s.body) + ([] if always_returns(s.body) else list(rest)))
            b, tb = self.block(list(s.orelse) + ([] if always_returns(s.orelse) else list(rest)))
            if ta != tb: refuse(s, "branches of different type")
            return ("(if %s then %s else %s)" % (c, a, b), ta)
        refuse(s, "unsupported statement")

def always_returns(stmts):
    """the statement list ends in a return on every path (so whatever follows an `if` made of such branches is not appended to them)"""
    stmts = strip(stmts)
    if not stmts: return False
    last = stmts[-1]
    return isinstance(last, ast.Return) or (isinstance(last, ast.If) and always_returns(last.body) and always_returns(last.orelse))

COQT = {"Z": "Z", "bool": "bool", "Q": "Q", "ZZ": "(Z * Z)"}

# ---------------------------------------------------------------------------------------------------------------- 1, 3, 4: src/common.py
def site_set(tree, name):
    v = top_assign(tree, name)
    if not isinstance(v, ast.Set): refuse(v, "%s is not a set literal" % name)
    pairs = []
    for e in v.elts:
        if not (isinstance(e, ast.Tuple) and len(e.elts) == 2): refuse(e, "site is not a pair")
        for s in e.elts:
            if not (isinstance(s, ast.Constant) and isinstance(s.value, str) and len(s.value) == 2): refuse(s, "site is not a two-letter string literal")
        key = (e.elts[0].value, e.elts[1].value)
        if key in [k for k, _ in pairs]: refuse(e, "site listed twice")
        pairs.append((key, "(%s, %s)" % (bytes_of(e.elts[0]), bytes_of(e.elts[1]))))
    return ["(* %s = %s *)" % (name, ast.unparse(v)),
            "Definition %s : list (list Z * list Z) := [%s]." % (name, "; ".join(p for _, p in pairs))]

def common_part(out):
    tree = parse("src/common.py")
    out += ["", "(* ---- 1. src/common.py: canonical splice-site sets (left site first), in the order of the set literal *)"]
    out += site_set(tree, "CANONICAL_FWD_SITES") + site_set(tree, "CANONICAL_REV_SITES")
    out += ["", "(* ---- 3. src/common.py: TranscriptNaming *)"]
    cls = top_class(tree, "TranscriptNaming")
    if cls.bases or cls.decorator_list: refuse(cls, "TranscriptNaming is no longer a plain constants class")
    seen = []
    for n in cls.body:
        if is_doc(n) or isinstance(n, ast.Pass): continue
        if not (isinstance(n, ast.Assign) and len(n.targets) == 1 and isinstance(n.targets[0], ast.Name)): refuse(n, "unexpected statement in TranscriptNaming")
        nm = n.targets[0].id
        if nm in seen: refuse(n, "constant assigned twice")
        seen.append(nm)
        out.append("Definition TN_%s : list Z := %s.      (* %s *)" % (coq_ident(nm), bytes_of(n.value), ast.unparse(n.value)))
    for need in ("transcript_prefix", "novel_gene_prefix", "nic_transcript_suffix", "nnic_transcript_suffix"):
        if need not in seen: raise Refuse("TranscriptNaming.%s not found" % need)
    out += ["", "(* ---- 4. src/common.py: CigarEvent *)"]
    ce = top_class(tree, "CigarEvent"); mem = enum_members(ce); names = [m for m, _ in mem]
    out += emit_enum("CE", mem)
    for m in ("get_match_events", "get_ins_del_match_events"): out += emit_set("CE_" + m, "CE", cls_set_method(ce, m, names))
    others = [n.name for n in ce.body if isinstance(n, ast.FunctionDef) and n.name not in ("get_match_events", "get_ins_del_match_events")]
    if others: raise Refuse("CigarEvent has methods this translator does not know: %s" % others)

# ---------------------------------------------------------------------------------------------------------------- 2: src/long_read_counter.py
def counting_part(out):
    tree = parse("src/long_read_counter.py")
    out += ["", "(* ---- 2. src/long_read_counter.py: CountingStrategy, CountingStrategyFlags, ReadWeightCounter *)"]
    cs = top_class(tree, "CountingStrategy"); mem = enum_members(cs); names = [m for m, _ in mem]
    out += emit_enum("CS", mem)
    preds = ("no_inconsistent", "ambiguous", "inconsistent_minor", "inconsistent")
    others = [n.name for n in cs.body if isinstance(n, ast.FunctionDef) and n.name not in preds]
    if others: raise Refuse("CountingStrategy has methods this translator does not know: %s" % others)
    for p in preds: out += emit_set("CS_" + p, "CS", self_in_pred(cs, p, names))
    # COUNTING_STRATEGIES = [CountingStrategy.x.name, ...]
    v = top_assign(tree, "COUNTING_STRATEGIES")
    if not isinstance(v, ast.List): refuse(v, "COUNTING_STRATEGIES is not a list literal")
    lst = []
    for e in v.elts:
        d = dotted(e)
        if d is None or not (d.startswith("CountingStrategy.") and d.endswith(".name")) or d.split(".")[1] not in names or len(d.split(".")) != 3: refuse(e, "not CountingStrategy.<member>.name")
        lst.append(d.split(".")[1])
    out += emit_set("CS_COUNTING_STRATEGIES", "CS", lst)
    # class CountingStrategyFlags: __init__(self, counting_strategy): self.<field> = counting_strategy.<pred>()
    fl = top_class(tree, "CountingStrategyFlags")
    if fl.bases or fl.decorator_list or [n.name for n in fl.body if isinstance(n, ast.FunctionDef)] != ["__init__"]: refuse(fl, "CountingStrategyFlags is no longer a class with only __init__")
    init = method(fl, "__init__")
    if plain_params(init, ["self", "counting_strategy"]): refuse(init, "default values")
    fields = []
    for s in strip(init.body):
        ok = (isinstance(s, ast.Assign) and len(s.targets) == 1 and isinstance(s.targets[0], ast.Attribute) and dotted(s.targets[0].value) == "self"
              and isinstance(s.value, ast.Call) and not s.value.args and not s.value.keywords and isinstance(s.value.func, ast.Attribute)
              and dotted(s.value.func.value) == "counting_strategy" and s.value.func.attr in preds)
        if not ok: refuse(s, "not `self.<field> = counting_strategy.<predicate>()`")
        if s.targets[0].attr in [f for f, _ in fields]: refuse(s, "field assigned twice")
        fields.append((s.targets[0].attr, s.value.func.attr))
    want = ["use_ambiguous", "use_inconsistent_minor", "use_inconsistent"]
    if [f for f, _ in fields] != want: raise Refuse("CountingStrategyFlags fields changed: %s" % [f for f, _ in fields])
    out.append("Record CSF := mkCSF { %s }." % "; ".join("csf_%s : bool" % f for f in want))
    out.append("Definition CSF_init (counting_strategy:CS) : CSF := mkCSF %s." % " ".join("(CS_mem counting_strategy CS_%s)" % p for _, p in fields))
    # class ReadWeightCounter
    rw = top_class(tree, "ReadWeightCounter")
    if rw.bases or rw.decorator_list or [n.name for n in rw.body if isinstance(n, ast.FunctionDef)] != ["__init__", "process_inconsistent", "process_ambiguous"]:
        refuse(rw, "ReadWeightCounter methods changed")
    init = method(rw, "__init__")
    if plain_params(init, ["self", "strategy_str"]): refuse(init, "default values")
    got = [ast.unparse(s) for s in strip(init.body)]
    if got != ["self.strategy = CountingStrategy[strategy_str]", "self.strategy_flags = CountingStrategyFlags(self.strategy)"]: refuse(init, "ReadWeightCounter.__init__ changed")
    attrs = {"self.strategy_flags." + f: ("(csf_%s fl)" % f, "bool") for f in want}
    rat = enum_members_names(parse("src/isoform_assignment.py"), "ReadAssignmentType")
    for m in rat: attrs["ReadAssignmentType." + m] = ("RAT_" + coq_ident(m), "RAT")
    out.append("(* fl = self.strategy_flags = CSF_init (CountingStrategy[strategy_str]); RAT is ReadAssignmentType of gen/Tables.v *)")
    for name, params, env in (("process_inconsistent", ["self", "assignment_type", "feature_count"], {"assignment_type": ("assignment_type", "RAT"), "feature_count": ("feature_count", "Z")}),
                              ("process_ambiguous", ["self", "feature_count"], {"feature_count": ("feature_count", "Z")})):
        fn = method(rw, name)
        if fn.decorator_list or plain_params(fn, params): refuse(fn, "decorators / default values")
        body, t = Tr(env, attrs, {"RAT"}).block(fn.body)
        if t != "Q": refuse(fn, "does not return a float on every path")
        sig = " ".join("(%s:%s)" % (p, "RAT" if env[p][1] == "RAT" else COQT[env[p][1]]) for p in params[1:])
        out.append("Definition py_%s (fl:CSF) %s : Q := %s." % (name, sig, body))
    out += ["", "(* ---- 6a. src/long_read_counter.py: GroupedOutputFormat *)"]
    gf = top_class(tree, "GroupedOutputFormat"); mem = enum_members(gf); names = [m for m, _ in mem]
    out += emit_enum("GOF", mem)
    others = [n.name for n in gf.body if isinstance(n, ast.FunctionDef) and n.name not in ("output_matrix", "output_linear")]
    if others: raise Refuse("GroupedOutputFormat has methods this translator does not know: %s" % others)
    for p in ("output_matrix", "output_linear"): out += emit_set("GOF_" + p, "GOF", self_in_pred(gf, p, names))

def enum_members_names(tree, name):
    """member names of an Enum defined elsewhere (its values are translated by translate_tables.py)"""
    out = []
    for n in top_class(tree, name).body:
        if isinstance(n, ast.Assign) and len(n.targets) == 1 and isinstance(n.targets[0], ast.Name) and isinstance(n.value, ast.Constant) and isinstance(n.value.value, int):
            out.append(n.targets[0].id)
    if not out: raise Refuse("enum %s has no members" % name)
    return out

# ---------------------------------------------------------------------------------------------------------------- 5: polyA
def polya_part(out):
    tree = parse("src/polya_finder.py")
    out += ["", "(* ---- 5. src/polya_finder.py: PolyAFinder defaults and search windows *)"]
    pf = top_class(tree, "PolyAFinder")
    init = method(pf, "__init__")
    d = plain_params(init, ["self", "window_size", "min_polya_fraction"])
    if len(d) != 2 or not all(isinstance(x, ast.Constant) for x in d): refuse(init, "defaults are not two literals")
    w, fr = d[0].value, d[1].value
    if not (isinstance(w, int) and not isinstance(w, bool) and isinstance(fr, float)): refuse(init, "defaults are not (int, float)")
    got = [ast.unparse(s) for s in strip(init.body)]
    if got != ["self.window_size = window_size", "self.min_polya_fraction = min_polya_fraction", "self.polyA_count = int(self.window_size * self.min_polya_fraction)"]:
        refuse(init, "PolyAFinder.__init__ changed")
    exact = Fraction(w) * Fraction(repr(fr))
    if Fraction(w * fr) != exact or exact < 0: refuse(init, "window_size * min_polya_fraction is not exact in binary floating point (or negative)")
    out.append("Definition PF_window_size : Z := %s." % zlit(w))
    out.append("Definition PF_min_polya_fraction : Q := %s.      (* %r *)" % (qlit(fr), fr))
    out.append("Definition PF_polyA_count : Z := %s.      (* int(window_size * min_polya_fraction), the product being exact *)" % zlit(int(exact)))
    # find_polya_external etc.: return self.<f>(alignment, <a>, <b>[, check_entire_...=True]) with a, b in {literal, literal * self.window_size}
    def win_arg(n):
        if isinstance(n, ast.Constant) and isinstance(n.value, int) and not isinstance(n.value, bool): return n.value
        if (isinstance(n, ast.BinOp) and isinstance(n.op, ast.Mult) and isinstance(n.left, ast.Constant) and isinstance(n.left.value, int) and not isinstance(n.left.value, bool)
                and dotted(n.right) == "self.window_size"): return n.left.value * w
        refuse(n, "window bound is not <int> or <int> * self.window_size")
    for name, callee, kw in (("find_polya_external", "find_polya_tail", None), ("find_polya_internal", "find_polya_tail", "check_entire_tail"),
                             ("find_polyt_external", "find_polyt_head", None), ("find_polyt_internal", "find_polyt_head", "check_entire_head")):
        fn = method(pf, name)
        if plain_params(fn, ["self", "alignment"]): refuse(fn, "default values")
        body = strip(fn.body)
        if len(body) != 1 or not isinstance(body[0], ast.Return) or not isinstance(body[0].value, ast.Call): refuse(fn, "body is not a single call")
        c = body[0].value
        if dotted(c.func) != "self." + callee or len(c.args) != 3 or dotted(c.args[0]) != "alignment": refuse(c, "not self.%s(alignment, from, to)" % callee)
        entire = False
        if kw is None:
            if c.keywords: refuse(c, "unexpected keyword argument")
        else:
            if len(c.keywords) != 1 or c.keywords[0].arg != kw or not (isinstance(c.keywords[0].value, ast.Constant) and c.keywords[0].value.value is True): refuse(c, "expected %s=True" % kw)
            entire = True
        out.append("Definition PF_%s : Z * Z * bool := (%s, %s, %s).      (* from_pos, to_pos, check the entire tail *)" % (name[5:], zlit(win_arg(c.args[1])), zlit(win_arg(c.args[2])), "true" if entire else "false"))
    # defaults of find_polya_tail / find_polyt_head: the last parameter is False
    for name, last in (("find_polya_tail", "check_entire_tail"), ("find_polyt_head", "check_entire_head")):
        fn = method(pf, name)
        d = plain_params(fn, ["self", "alignment", "from_pos", "to_pos", last])
        if len(d) != 1 or not (isinstance(d[0], ast.Constant) and d[0].value is False): refuse(fn, "default of %s is not False" % last)

    tree = parse("src/polya_verification.py")
    out += ["", "(* ---- 5. src/polya_verification.py: PolyAFixer.count_polya_exons / count_polyt_exons.",
            "   Shape checked: `if pos == <sentinel>: return 0; n = 0; for i in range(len(read_exons)): exon = read_exons[<index>];",
            "   if <break test>: break; len_to = <expr>; if <exon test>: n += 1` ; `return n`.  The pieces are emitted separately. *)"]
    fx = top_class(tree, "PolyAFixer")
    for name, pos, tag in (("count_polya_exons", "internal_polya_pos", "polya"), ("count_polyt_exons", "internal_polyt_pos", "polyt")):
        fn = method(fx, name)
        if fn.decorator_list or plain_params(fn, ["self", "read_exons", pos]): refuse(fn, "decorators / default values")
        body = strip(fn.body)
        if len(body) != 4: refuse(fn, "body is not [sentinel test, counter init, for loop, return]")
        g, ini, loop, ret = body
        # sentinel
        if not (isinstance(g, ast.If) and not g.orelse and len(strip(g.body)) == 1 and ast.unparse(strip(g.body)[0]) == "return 0" and isinstance(g.test, ast.Compare) and len(g.test.ops) == 1
                and isinstance(g.test.ops[0], ast.Eq) and dotted(g.test.left) == pos): refuse(g, "not `if %s == <sentinel>: return 0`" % pos)
        sent, ts = Tr({}, {}, ()).expr(g.test.comparators[0])
        if ts != "Z": refuse(g, "sentinel is not an integer literal")
        if not (isinstance(ini, ast.Assign) and len(ini.targets) == 1 and isinstance(ini.targets[0], ast.Name) and ast.unparse(ini.value) == "0"): refuse(ini, "counter initialisation")
        cnt = ini.targets[0].id
        if not (isinstance(ret, ast.Return) and dotted(ret.value) == cnt): refuse(ret, "does not return the counter")
        if not (isinstance(loop, ast.For) and not loop.orelse and isinstance(loop.target, ast.Name) and ast.unparse(loop.iter) == "range(len(read_exons))"): refuse(loop, "not `for i in range(len(read_exons))`")
        i = loop.target.id
        lb = strip(loop.body)
        if len(lb) != 4: refuse(loop, "loop body is not [exon = ..., if ...: break, len_to = ..., if ...: counter += 1]")
        ex, brk, lt, tst = lb
        if not (isinstance(ex, ast.Assign) and len(ex.targets) == 1 and dotted(ex.targets[0]) == "exon" and isinstance(ex.value, ast.Subscript) and dotted(ex.value.value) == "read_exons"): refuse(ex, "not `exon = read_exons[...]`")
        idx = ast.unparse(ex.value.slice)
        if idx == "-%s - 1" % i: from_end = True
        elif idx == i: from_end = False
        else: refuse(ex, "index is neither i nor -i - 1")
        if not (isinstance(brk, ast.If) and not brk.orelse and len(brk.body) == 1 and isinstance(brk.body[0], ast.Break)): refuse(brk, "not `if <test>: break`")
        if not (isinstance(lt, ast.Assign) and len(lt.targets) == 1 and isinstance(lt.targets[0], ast.Name)): refuse(lt, "not `len_to = <expr>`")
        if not (isinstance(tst, ast.If) and not tst.orelse and len(strip(tst.body)) == 1 and ast.unparse(strip(tst.body)[0]) == "%s += 1" % cnt): refuse(tst, "not `if <test>: %s += 1`" % cnt)
        env = {pos: (pos, "Z"), "exon": ("exon", "ZZ")}
        attrs = {"self.params.max_fake_terminal_exon_len": ("max_fake_terminal_exon_len", "Z")}
        b, tb = Tr(env, attrs, ()).expr(brk.test)
        if tb != "bool": refuse(brk, "break test is not boolean")
        tr = Tr(env, attrs, ())
        lv, tl = tr.expr(lt.value)
        if tl != "Z": refuse(lt, "len_to is not an integer")
        ltn = lt.targets[0].id
        if ltn in env: refuse(lt, "re-assignment")
        tr.env[ltn] = (coq_ident(ltn), "Z")
        c, tc = tr.expr(tst.test)
        if tc != "bool": refuse(tst, "exon test is not boolean")
        out.append("Definition py_count_%s_sentinel : Z := %s." % (tag, sent))
        out.append("Definition py_count_%s_from_last_exon : bool := %s.      (* exon = read_exons[%s] *)" % (tag, "true" if from_end else "false", idx))
        out.append("Definition py_count_%s_break (%s:Z) (exon:Z * Z) : bool := %s." % (tag, pos, b))
        out.append("Definition py_count_%s_test (max_fake_terminal_exon_len:Z) (%s:Z) (exon:Z * Z) : bool := (let %s := %s in %s)." % (tag, pos, coq_ident(ltn), lv, c))

# ---------------------------------------------------------------------------------------------------------------- 6: dataset_processor.py
def orchestration_part(out):
    tree = parse("src/dataset_processor.py")
    out += ["", "(* ---- 6b. src/dataset_processor.py: PolyAUsageStrategies, set_polya_requirement_strategy *)"]
    pus = top_class(tree, "PolyAUsageStrategies"); mem = enum_members(pus)
    if [n.name for n in pus.body if isinstance(n, ast.FunctionDef)]: refuse(pus, "PolyAUsageStrategies has methods this translator does not know")
    out += emit_enum("PUS", mem)
    fn = top_func(tree, "set_polya_requirement_strategy")
    if fn.decorator_list or plain_params(fn, ["flag", "polya_requirement_strategy"]): refuse(fn, "decorators / default values")
    attrs = {"PolyAUsageStrategies." + m: ("PUS_" + coq_ident(m), "PUS") for m, _ in mem}
    body, t = Tr({"flag": ("flag", "bool"), "polya_requirement_strategy": ("polya_requirement_strategy", "PUS")}, attrs, {"PUS"}).block(fn.body)
    if t != "bool": refuse(fn, "does not return a bool on every path")
    out.append("Definition py_set_polya_requirement_strategy (flag:bool) (polya_requirement_strategy:PUS) : bool := %s." % body)

def main():
    out = ["(* GENERATED by translate_extra.py from %s -- do not edit *)" % REPO,
           "From Coq Require Import ZArith QArith List Bool. From IQ.gen Require Import Tables. Import ListNotations."]
    common_part(out); counting_part(out); polya_part(out); orchestration_part(out)
    print("\n".join(out))

if __name__ == "__main__":
    try: main()
    except Refuse as e: sys.stderr.write("TRANSLATOR REFUSES: %s\n" % e); sys.exit(3)
