#!/usr/bin/env python3
"""keepseed.py <atk dir> <Cxx>: store a confirmed seeded change under /verif/seeded/<name>/ with what was run and what the check reported"""
import sys, os, json, shutil
d, pid = sys.argv[1].rstrip("/"), sys.argv[2]; name = os.path.basename(d)
conf = open("/tmp/ck/seed_%s.confirm" % name).read(); conf = json.loads(conf[conf.index("{"):])
chk = open("/tmp/ck/seed_%s.check" % name).read(); chk = json.loads(chk[chk.index("{"):])
assert conf["confirmed"], conf
dst = "/verif/seeded/%s" % name; os.makedirs(dst, exist_ok=True)
for f in ("patch.diff", "demo.py"): shutil.copy(os.path.join(d, f), dst)
m = json.load(open(os.path.join(d, "meta.json")))
meta = dict(property=pid, summary=m.get("summary"), needs=m.get("needs"), files_changed=m.get("files_changed"),
            confirmed_by_coordinator=dict(cmd="tools/seedtest.py confirm (scratch worktrees of /repo HEAD: suite with the change, demo.py with and without it)",
                                         suite_with_change=conf["suite_with_change"], demo_exit_with_change=conf["demo_with_change"], demo_exit_clean=conf["demo_clean"]),
            detection={p: dict(cmd="tools/seedtest.py check (private copy of /verif, VERIF_REPO=<patched worktree>): ./check %s --tier quick" % p, exit=r["exit"],
                               detected=r["exit"] == 1 and any(l.startswith("VIOLATION") for l in r["lines"]),
                               concrete_input=any(l.startswith("VIOLATION") and "no-failing-input-found" not in l for l in r["lines"]),
                               violations=[dict(key=x.get("key"), what=x.get("what"), replay=x.get("replay")) for x in r["detail"] if isinstance(x, dict)][:4], wall_s=r["wall_s"]) for p, r in chk.items()})
json.dump(meta, open(os.path.join(dst, "meta.json"), "w"), indent=1)
print(name, {p: v["detected"] for p, v in meta["detection"].items()})
